//go:build verif

package server

// C07 — partition leadership changes are safe and fenced by epochs.
//
// A STARTED single-node server (it is the metadata leader / controller) whose streams are created
// by proposing CreateStream entries with PHANTOM replicas (this server "a" is in no replica set,
// so no partition ever starts leading or following here).  ReportLeader / ShrinkISR / ExpandISR /
// LostLeadership are called in-process on s.metadata; the expiry timer is fired through the real
// time.Timer (forced to "now" for the bulk of the cases, real short timeouts for a few timing
// scenarios); check-then-propose races are produced with real goroutines parked on the Raft lock.
// After every step the canonical partition state is compared with the Lean model (`c07 …`) and
// judged by an oracle written from the property statement (c07Oracle), which never looks at the
// model.  A Raft-log listener records the partition state after EVERY applied entry, so the
// oracle also sees the intermediate states of a race.
//
// Case lines (impl level, symbolic (leader, epoch) pairs):
//   create <p> <r,r,…> <leader>
//   remove <p>
//   report <p> <replica> <pair>
//   shrink <p> <replica> <pair>
//   expand <p> <replica> <pair>
//   expire <p>                       fire the expiry timer if it is armed
//   lost                             LostLeadership()
//   race <p> | <request> | <request> both requests pass their incoming checks on the same state,
//                                    then are proposed one after the other (first one first)
//   pair = cur (current leader, current leader epoch) | old (previous leader and its epoch) |
//          ol-ce (previous leader, current epoch) | cl-oe (current leader, previous epoch) |
//          fut (current leader, epoch+1) | pe (current leader, PARTITION epoch) | <leader>:<epoch>

import (
	"bytes"
	"context"
	"io"
	"fmt"
	"os"
	"os/exec"
	"regexp"
	"sort"
	"strconv"
	"strings"
	"sync"
	"sync/atomic"
	"testing"
	"time"

	"google.golang.org/grpc/codes"
	"google.golang.org/grpc/status"

	proto "github.com/liftbridge-io/liftbridge/server/protocol"
)

// ---------- canonical state ----------

type c07Snap struct {
	present bool
	leader  string
	le, e   uint64
	isr     []string
	rep     []string
	hasFo   bool
	wit     []string
	pisr    []string // the PERSISTED in-sync list (Partition.Isr): what a partition rebuilt from the protobuf (snapshot restore, pause/resume) - and so the next election there - draws from; not part of String()
}

func c07Join(l []string) string {
	if len(l) == 0 {
		return "-"
	}
	return strings.Join(l, ",")
}

func (sn c07Snap) String() string {
	fo := "-"
	if sn.hasFo {
		fo = c07Join(sn.wit)
	}
	if !sn.present {
		return "none fo=" + fo
	}
	return fmt.Sprintf("L=%s le=%d e=%d isr=%s rep=%s fo=%s", sn.leader, sn.le, sn.e, c07Join(sn.isr), c07Join(sn.rep), fo)
}

func c07In(l []string, x string) bool {
	for _, y := range l {
		if y == x {
			return true
		}
	}
	return false
}

var c07ArmedRe = regexp.MustCompile(`:(armed|stopped)`)

// c07Norm splits a model answer into outcome and state; the timer flag and the in-flight count are
// not observable on the implementation (the timer flag is observed through `expire`).
func c07Norm(ans string) (out, state string) {
	k := strings.Index(ans, " | ")
	if k < 0 {
		return ans, ""
	}
	out, state = ans[:k], ans[k+3:]
	state = c07ArmedRe.ReplaceAllString(state, "")
	if j := strings.Index(state, " fl="); j >= 0 {
		tail := ""
		if strings.Contains(state[j:], "CRASHED") {
			tail = " CRASHED"
		}
		state = state[:j] + tail
	}
	return
}

// ---------- the implementation side ----------

type c07Entry struct {
	idx    uint64
	kind   string // create | delete | shrink | expand | change | other
	stream string
	target string // replica / new leader
	leader string // (leader, epoch) carried by a shrink / expand entry
	epoch  uint64
	after  c07Snap
}

type c07Impl struct {
	t       testing.TB
	s       *Server
	mu      sync.Mutex
	entries []c07Entry
	names   map[string]string    // logical partition name of the case -> real stream name
	prev    map[string][2]string // logical name -> pair before the last leader change
}

var c07Seq int64

func (im *c07Impl) Receive(l *RaftLog) {
	e := c07Entry{idx: l.Index, kind: "other"}
	op := &proto.RaftLog{}
	if l.Type != 0 || op.Unmarshal(l.Data) != nil { // raft.LogCommand == 0
		return
	}
	switch op.Op {
	case proto.Op_CREATE_STREAM:
		e.kind, e.stream = "create", op.CreateStreamOp.Stream.Name
	case proto.Op_DELETE_STREAM:
		e.kind, e.stream = "delete", op.DeleteStreamOp.Stream
	case proto.Op_SHRINK_ISR:
		e.kind, e.stream, e.target, e.leader, e.epoch = "shrink", op.ShrinkISROp.Stream, op.ShrinkISROp.ReplicaToRemove, op.ShrinkISROp.Leader, op.ShrinkISROp.LeaderEpoch
	case proto.Op_EXPAND_ISR:
		e.kind, e.stream, e.target, e.leader, e.epoch = "expand", op.ExpandISROp.Stream, op.ExpandISROp.ReplicaToAdd, op.ExpandISROp.Leader, op.ExpandISROp.LeaderEpoch
	case proto.Op_CHANGE_LEADER:
		e.kind, e.stream, e.target = "change", op.ChangeLeaderOp.Stream, op.ChangeLeaderOp.Leader
	default:
		return
	}
	e.after = im.dumpReal(e.stream)
	im.mu.Lock()
	im.entries = append(im.entries, e)
	im.mu.Unlock()
}

func (im *c07Impl) mark() int {
	im.mu.Lock()
	defer im.mu.Unlock()
	return len(im.entries)
}

func (im *c07Impl) since(k int) []c07Entry {
	im.mu.Lock()
	defer im.mu.Unlock()
	return append([]c07Entry(nil), im.entries[k:]...)
}

func (im *c07Impl) dumpReal(stream string) c07Snap {
	var sn c07Snap
	p := im.s.metadata.GetPartition(stream, 0)
	if p == nil {
		return sn
	}
	sn.present = true
	sn.leader, sn.le = p.GetLeader()
	sn.e = p.GetEpoch()
	// the in-sync set and its persisted form are read under ONE lock acquisition: they are compared with each other
	p.mu.RLock()
	for r := range p.isr {
		sn.isr = append(sn.isr, r)
	}
	sn.pisr = append([]string(nil), p.Partition.Isr...)
	p.mu.RUnlock()
	sort.Strings(sn.isr)
	sort.Strings(sn.pisr)
	sn.rep = p.GetReplicas()
	sort.Strings(sn.rep)
	im.s.metadata.mu.Lock()
	fo := im.s.metadata.partitionFailovers[p]
	im.s.metadata.mu.Unlock()
	if fo != nil {
		sn.hasFo = true
		fo.mu.Lock()
		for w := range fo.witnesses {
			sn.wit = append(sn.wit, w)
		}
		fo.mu.Unlock()
		sort.Strings(sn.wit)
	}
	return sn
}

func (im *c07Impl) real(p string) string {
	if n, ok := im.names[p]; ok {
		return n
	}
	// a partition the case never created: a name that does not exist
	return "c07-missing-" + p
}

func (im *c07Impl) dump(p string) c07Snap { return im.dumpReal(im.real(p)) }

func (im *c07Impl) ctx() (context.Context, context.CancelFunc) {
	return context.WithTimeout(context.Background(), 6*time.Second)
}

func (im *c07Impl) lastIndex() uint64 { return im.s.getRaft().LastIndex() }

// c07Why maps a status to the enum of the model.
func c07Why(st *status.Status) string {
	m := st.Message()
	switch {
	case strings.Contains(m, "Leader generation mismatch"):
		return "stale"
	case strings.Contains(m, "No such partition"), strings.Contains(m, ErrStreamNotFound.Error()), strings.Contains(m, ErrPartitionNotFound.Error()):
		return "no-partition"
	case strings.Contains(m, "is not a replica"):
		return "not-replica"
	case strings.Contains(m, "Cannot remove leader"):
		return "leader-removal"
	case strings.Contains(m, "no longer in the ISR"):
		return "candidate-gone"
	case strings.Contains(m, "No ISR candidates"):
		return "no-candidates"
	}
	return "other(" + st.Code().String() + ":" + m + ")"
}

// resolve turns a symbolic pair into a concrete one.
func (im *c07Impl) resolve(p, pair string) (string, uint64) {
	sn := im.dump(p)
	if !sn.present {
		sn.leader = "nobody"
	}
	pl, pe := sn.leader, sn.le
	if pv, ok := im.prev[p]; ok {
		pl = pv[0]
		pe, _ = strconv.ParseUint(pv[1], 10, 64)
	} else if pe > 0 {
		pe-- // no earlier term: a smaller epoch, the same leader
	}
	switch pair {
	case "cur":
		return sn.leader, sn.le
	case "old":
		return pl, pe
	case "ol-ce":
		if pl == sn.leader {
			pl = pl + "'"
		}
		return pl, sn.le
	case "cl-oe":
		return sn.leader, pe
	case "fut":
		return sn.leader, sn.le + 1
	case "pe":
		return sn.leader, sn.e
	}
	if k := strings.LastIndex(pair, ":"); k > 0 {
		e, _ := strconv.ParseUint(pair[k+1:], 10, 64)
		return pair[:k], e
	}
	return pair, sn.le
}

func (im *c07Impl) noteLeaderChange(p string, before, after c07Snap) {
	if before.present && after.present && (before.leader != after.leader || before.le != after.le) {
		im.prev[p] = [2]string{before.leader, strconv.FormatUint(before.le, 10)}
	}
}

func (im *c07Impl) create(p string, replicas []string, leader string) error {
	name := fmt.Sprintf("c07%s%d", p, atomic.AddInt64(&c07Seq, 1))
	op := &proto.RaftLog{Op: proto.Op_CREATE_STREAM, CreateStreamOp: &proto.CreateStreamOp{Stream: &proto.Stream{
		Name: name, Subject: name,
		Partitions: []*proto.Partition{{Subject: name, Stream: name, Id: 0, ReplicationFactor: int32(len(replicas)),
			Replicas: append([]string(nil), replicas...), Isr: append([]string(nil), replicas...), Leader: leader}},
	}}}
	ctx, cancel := im.ctx()
	defer cancel()
	f, err := im.s.getRaft().applyOperation(ctx, op, im.s.metadata.checkCreateStreamPreconditions)
	if err != nil {
		return err
	}
	if err := f.Error(); err != nil {
		return err
	}
	im.names[p] = name
	delete(im.prev, p)
	return nil
}

func (im *c07Impl) remove(p string) *status.Status {
	ctx, cancel := im.ctx()
	defer cancel()
	st := im.s.metadata.DeleteStream(ctx, &proto.DeleteStreamOp{Stream: im.real(p)})
	if st == nil {
		delete(im.names, p)
		delete(im.prev, p)
	}
	return st
}

// fire makes an ARMED expiry timer fire now (through the real timer and callback) and waits for
// the entry to go; a stopped or missing timer is left alone.
func (im *c07Impl) fire(p string) string {
	part := im.s.metadata.GetPartition(im.real(p), 0)
	if part == nil {
		return "not-armed"
	}
	m := im.s.metadata
	m.mu.Lock()
	fo := m.partitionFailovers[part]
	m.mu.Unlock()
	if fo == nil {
		return "not-armed"
	}
	fo.mu.Lock()
	active := fo.timer != nil && fo.timer.Stop()
	if active {
		fo.timer.Reset(0)
	}
	fo.mu.Unlock()
	if !active {
		return "not-armed"
	}
	deadline := time.Now().Add(5 * time.Second)
	for time.Now().Before(deadline) {
		m.mu.Lock()
		cur := m.partitionFailovers[part]
		m.mu.Unlock()
		if cur != fo {
			return "done"
		}
		time.Sleep(200 * time.Microsecond)
	}
	return "timer-did-not-fire"
}

// cleanup deletes the streams of the case.
func (im *c07Impl) cleanup() {
	for p := range im.names {
		im.remove(p)
	}
	im.names = map[string]string{}
	im.prev = map[string][2]string{}
}

// request performs one of report / shrink / expand and returns the status.
func (im *c07Impl) request(kind, p, replica, l string, e uint64) *status.Status {
	ctx, cancel := im.ctx()
	defer cancel()
	name := im.real(p)
	switch kind {
	case "report":
		return im.s.metadata.ReportLeader(ctx, &proto.ReportLeaderOp{Stream: name, Partition: 0, Replica: replica, Leader: l, LeaderEpoch: e})
	case "shrink":
		return im.s.metadata.ShrinkISR(ctx, &proto.ShrinkISROp{Stream: name, Partition: 0, ReplicaToRemove: replica, Leader: l, LeaderEpoch: e})
	case "expand":
		return im.s.metadata.ExpandISR(ctx, &proto.ExpandISROp{Stream: name, Partition: 0, ReplicaToAdd: replica, Leader: l, LeaderEpoch: e})
	}
	panic("bad request kind " + kind)
}

// ---------- the oracle (from the property statement; never looks at the model) ----------

type c07Rep struct {
	replica, leader string
	epoch           uint64
}

type c07Oracle struct {
	leaderOf map[string]map[uint64]string
	maxE     map[string]uint64
	maxLE    map[string]uint64
	window   map[string][]c07Rep
	fail     string
	tag      string
}

func c07NewOracle() *c07Oracle {
	return &c07Oracle{leaderOf: map[string]map[uint64]string{}, maxE: map[string]uint64{}, maxLE: map[string]uint64{}, window: map[string][]c07Rep{}}
}

func (o *c07Oracle) bad(tag, format string, a ...interface{}) {
	if o.fail == "" {
		o.fail, o.tag = fmt.Sprintf(format, a...), tag
	}
}

// observe: every state ever seen. "exactly one leader per leader epoch", "epochs only increase",
// "the leader is always in the in-sync set which is a subset of the replicas".
func (o *c07Oracle) observe(p string, sn c07Snap, when string) {
	if !sn.present {
		return
	}
	if o.leaderOf[p] == nil {
		o.leaderOf[p] = map[uint64]string{}
	}
	if l, ok := o.leaderOf[p][sn.le]; ok && l != sn.leader {
		o.bad("two-leaders-one-epoch", "%s: partition %s has leader %s in leader epoch %d, it had leader %s in the same epoch", when, p, sn.leader, sn.le, l)
	}
	o.leaderOf[p][sn.le] = sn.leader
	if sn.e < o.maxE[p] {
		o.bad("epoch-decreased", "%s: partition epoch of %s went from %d to %d", when, p, o.maxE[p], sn.e)
	}
	if sn.le < o.maxLE[p] {
		o.bad("epoch-decreased", "%s: leader epoch of %s went from %d to %d", when, p, o.maxLE[p], sn.le)
	}
	if sn.e > o.maxE[p] {
		o.maxE[p] = sn.e
	}
	if sn.le > o.maxLE[p] {
		o.maxLE[p] = sn.le
	}
	for _, x := range sn.isr {
		if !c07In(sn.rep, x) {
			o.bad("isr-not-subset-of-replicas", "%s: %s is in the ISR of %s but not a replica (%s)", when, x, p, sn)
		}
	}
	if !c07In(sn.isr, sn.leader) {
		o.bad("leader-not-in-isr", "%s: the leader %s of %s is not in the ISR (%s)", when, sn.leader, p, sn)
	}
	// "a new leader is only ever chosen from the current in-sync set": the set an election draws from on a
	// controller that rebuilt the partition from its protobuf (snapshot restore, pause/resume) is the persisted list
	if c07Join(sn.pisr) != c07Join(sn.isr) {
		o.bad("isr-persisted-differs", "%s: the persisted in-sync list of %s is {%s} while the in-sync set is {%s}: a controller restored from a snapshot counts reports of, and can elect, a replica outside the current in-sync set (%s)",
			when, p, c07Join(sn.pisr), c07Join(sn.isr), sn)
	}
}

func c07SameState(a, b c07Snap) bool { return a.String() == b.String() }

// stale: "in-sync-set changes or leader reports that name a stale leader or epoch are refused"
// (and change nothing). before = the state the request met.
func (o *c07Oracle) stale(kind, p, replica, l string, e uint64, before, after c07Snap, accepted bool, tag string) {
	if !before.present || (l == before.leader && e == before.le) {
		return
	}
	if accepted || !c07SameState(before, after) {
		o.bad(tag, "%s %s %s naming (%s, %d) while the partition has (%s, %d): accepted=%v, state %q -> %q",
			kind, p, replica, l, e, before.leader, before.le, accepted, before, after)
	}
}

// reported: an accepted report enters the window of its partition.
func (o *c07Oracle) reported(p, replica, l string, e uint64) {
	o.window[p] = append(o.window[p], c07Rep{replica, l, e})
}

func (o *c07Oracle) closeWindow(p string) { delete(o.window, p) }

// leaderChange: "a new leader is only ever chosen from the current in-sync set, never the reported
// leader itself, and only after more than half of the in-sync followers reported the current
// leader within the timeout window". before = state right before the change was applied, checked =
// state on which the report that completed the quorum was processed.
func (o *c07Oracle) leaderChange(p string, before, checked c07Snap, newLeader string, race bool) {
	ctag := "candidate-not-in-isr"
	if race {
		ctag = "failover-check-then-propose"
	}
	if !c07In(before.isr, newLeader) {
		o.bad(ctag, "partition %s: new leader %s is not in the in-sync set %v at the time of the change", p, newLeader, before.isr)
	}
	if newLeader == before.leader {
		o.bad(ctag, "partition %s: the reported leader %s was chosen again", p, newLeader)
	}
	if race && (before.leader != checked.leader || before.le != checked.le) {
		o.bad(ctag, "partition %s: the failover was decided against leader %s (epoch %d), but it replaced leader %s (epoch %d), which nobody had reported",
			p, checked.leader, checked.le, before.leader, before.le)
	}
	// the quorum is judged on the state the deciding report met (= `before` unless a request that
	// was checked at the same time got committed first)
	before = checked
	var followers []string
	for _, x := range before.isr {
		if x != before.leader {
			followers = append(followers, x)
		}
	}
	good := map[string]bool{}     // in-sync followers that reported the current pair in the window
	all := map[string]bool{}      // every reporter in the window
	curPair := map[string]bool{}  // reporters of the current pair
	for _, r := range o.window[p] {
		all[r.replica] = true
		if r.leader == before.leader && r.epoch == before.le {
			curPair[r.replica] = true
			if c07In(followers, r.replica) {
				good[r.replica] = true
			}
		}
	}
	if 2*len(good) > len(followers) {
		return
	}
	tag := "failover-non-isr-witness"
	switch {
	case race:
		tag = "failover-check-then-propose"
	case len(curPair) < len(all) && len(curPair) <= (len(before.isr)-1)/2:
		// the reporters of the current leader alone would not have reached the implementation's
		// own threshold: reports about an EARLIER leader were counted
		tag = "failover-witnesses-survive"
	}
	o.bad(tag, "partition %s: leader changed from %s (epoch %d) to %s after %d of %d in-sync followers %v reported it (reports in the window: %v)",
		p, before.leader, before.le, newLeader, len(good), len(followers), followers, o.window[p])
}

// ---------- one case on both sides ----------

type c07Case struct {
	im     *c07Impl
	model  *vModel
	orc    *c07Oracle
	cfg    map[string]bool
	sent   []string // model lines
	impl   []string // one line per case line
	mod    []string
	traced int // Raft entries seen by the oracle
	// inconclusive: a request came back with "raft operation timed out". server/raft.go's
	// timeoutFuture.Error() hands the result over with a non-blocking send on an unbuffered
	// channel; when the wrapped future is already done the send can run before the receiver
	// waits, the result is dropped and the call sits until the context deadline although
	// nothing is wrong (a lost wake-up in /repo, unrelated to this property; seen about once in
	// 10^4 requests). Such a case is not judged.
	inconclusive bool
}

func (c *c07Case) ask(line string) string {
	c.sent = append(c.sent, line)
	return c.model.Ask1(line)
}

func c07ParseCfg(ans string) map[string]bool {
	m := map[string]bool{}
	for _, f := range strings.Fields(ans) {
		if k := strings.Index(f, "="); k > 0 {
			m[f[:k]] = f[k+1:] == "1"
		}
	}
	return m
}

// feed the Raft entries applied since the last call to the oracle: the state after every entry,
// and for a change of leader the state right before it.
func (c *c07Case) trace(p string, before c07Snap, race bool) {
	real := c.im.real(p)
	cur := before
	raced := false // an entry applied earlier in this race changed the state the requests were checked on
	for _, e := range c.im.since(c.traced) {
		c.traced++
		if e.stream != real {
			continue
		}
		race := race && raced
		when := fmt.Sprintf("after Raft entry %d (%s %s)", e.idx, e.kind, e.target)
		switch e.kind {
		case "change":
			if cur.present && e.after.present && (e.after.leader != cur.leader || e.after.le != cur.le) {
				c.orc.leaderChange(p, cur, before, e.after.leader, race)
			}
		case "shrink", "expand":
			if race {
				// the request named (e.leader, e.epoch); cur is the state its entry met
				tmp := e.after
				tmp.hasFo, tmp.wit = cur.hasFo, cur.wit // the failover entry is not part of an ISR change
				c.orc.stale(e.kind+"(entry)", p, e.target, e.leader, e.epoch, cur, tmp, false, "failover-check-then-propose")
			}
		}
		c.orc.observe(p, e.after, when)
		cur = e.after
		raced = true
	}
}

// combined model outcome of "request, then (if accepted/triggered) commit of that request"
func (c *c07Case) modelRequest(kind, p, replica, l string, e uint64, choice string, idx uint64) (out, state string) {
	var ans string
	if kind == "report" {
		ans = c.ask(fmt.Sprintf("c07 report %s %s %s %d %s", p, replica, l, e, choice))
	} else {
		ans = c.ask(fmt.Sprintf("c07 %s %s %s %s %d", kind, p, replica, l, e))
	}
	out, state = c07Norm(ans)
	if out == "accepted" || strings.HasPrefix(out, "triggered ") {
		o2, s2 := c07Norm(c.ask(fmt.Sprintf("c07 commit 0 %d", idx)))
		state = s2
		switch {
		case out == "accepted" && (o2 == "applied" || o2 == "idempotent"):
			out = "ok"
		case out == "accepted":
			out = o2
		case o2 != "applied":
			out = "triggered-but " + o2
		}
	}
	return
}

// implOutcome canonicalises what the implementation answered.
func c07ImplOutcome(kind string, st *status.Status, before, after c07Snap) string {
	if st != nil {
		w := c07Why(st)
		if w == "no-candidates" {
			return w
		}
		return "refused " + w
	}
	if kind != "report" {
		return "ok"
	}
	if before.present && after.present && (before.leader != after.leader || before.le != after.le) {
		return "triggered " + after.leader
	}
	return "recorded"
}

func (c *c07Case) step(line string) {
	f := strings.Fields(line)
	var implLine, modLine string
	defer func() {
		if strings.Contains(implLine, "raft operation timed out") {
			c.inconclusive = true
		}
		c.impl = append(c.impl, implLine)
		c.mod = append(c.mod, modLine)
	}()
	im := c.im
	switch {
	case len(f) == 4 && f[0] == "create":
		reps := strings.Split(f[2], ",")
		if _, exists := im.names[f[1]]; exists {
			// CreateStream of an existing stream is refused by its precondition: not a step
			implLine = "illegal | " + im.dump(f[1]).String()
		} else if err := im.create(f[1], reps, f[3]); err != nil {
			implLine = "err " + err.Error()
		} else {
			sn := im.dump(f[1])
			implLine = "done | " + sn.String()
			c.orc.closeWindow(f[1])
			c.trace(f[1], c07Snap{}, false)
			c.orc.observe(f[1], sn, "after create")
		}
		o, s := c07Norm(c.ask(fmt.Sprintf("c07 create %s %s %s %d", f[1], f[2], f[3], im.lastIndex())))
		modLine = o + " | " + s
	case len(f) == 2 && f[0] == "remove":
		st := im.remove(f[1])
		if st != nil {
			implLine = "refused " + c07Why(st)
		} else {
			implLine = "done"
			c.orc.closeWindow(f[1])
		}
		implLine += " | " + im.dump(f[1]).String()
		c.traced = im.mark()
		o, s := c07Norm(c.ask(fmt.Sprintf("c07 remove %s %d", f[1], im.lastIndex())))
		modLine = o + " | " + s
	case len(f) == 4 && (f[0] == "report" || f[0] == "shrink" || f[0] == "expand"):
		kind, p, replica := f[0], f[1], f[2]
		l, e := im.resolve(p, f[3])
		before := im.dump(p)
		if kind != "report" && before.present && !c07In(before.rep, replica) && !c.cfg["replicaOnly"] && l == before.leader && e == before.le {
			// would kill this process on a code base without the membership check: child process only
			implLine, modLine = "skipped (would panic in Server.Apply: see the crash scenario)", "skipped (would panic in Server.Apply: see the crash scenario)"
			return
		}
		st := im.request(kind, p, replica, l, e)
		after := im.dump(p)
		out := c07ImplOutcome(kind, st, before, after)
		implLine = out + " | " + after.String()
		// oracle
		accepted := st == nil
		c.orc.stale(kind, p, replica, l, e, before, after, accepted, "stale-accepted")
		if kind == "report" && before.present && l == before.leader && e == before.le && (st == nil || !strings.HasPrefix(out, "refused stale") && !strings.HasPrefix(out, "refused no-partition")) {
			c.orc.reported(p, replica, l, e)
		}
		c.trace(p, before, false)
		c.orc.observe(p, after, "after "+line)
		if kind == "shrink" && before.present && after.present && replica == before.leader && !c07In(after.isr, after.leader) && c.orc.tag == "leader-not-in-isr" {
			c.orc.tag = "isr-shrink-leader"
		}
		im.noteLeaderChange(p, before, after)
		// model
		choice := "-"
		if strings.HasPrefix(out, "triggered ") {
			choice = after.leader
		}
		o, s := c.modelRequest(kind, p, replica, l, e, choice, im.lastIndex())
		modLine = o + " | " + s
	case len(f) == 2 && f[0] == "expire":
		r := im.fire(f[1])
		implLine = r + " | " + im.dump(f[1]).String()
		if r == "done" {
			c.orc.closeWindow(f[1])
		}
		o, s := c07Norm(c.ask("c07 expire " + f[1]))
		modLine = o + " | " + s
	case len(f) == 1 && f[0] == "lost":
		im.s.metadata.LostLeadership()
		implLine = "done"
		for p := range c.orc.window {
			c.orc.closeWindow(p)
		}
		modLine, _ = c07Norm(c.ask("c07 lost"))
	case len(f) == 1 && f[0] == "restore":
		// the controller's state goes through a Raft snapshot: Snapshot() + Persist() + Restore() of the bytes (what a restart from a
		// snapshot or an installed snapshot does to the metadata). Restore resets the failover entries like LostLeadership does
		// (model: `lost`); everything the property speaks about - leader, epochs, in-sync set - must come back as it was.
		snapBefore := map[string]c07Snap{}
		for p := range im.names {
			snapBefore[p] = im.dump(p)
		}
		fs, err := im.s.Snapshot()
		if err != nil {
			implLine = "err snapshot " + err.Error()
		} else {
			sink := &c06Sink{}
			if err := fs.Persist(sink); err != nil {
				implLine = "err persist " + err.Error()
			} else if err := im.s.Restore(io.NopCloser(bytes.NewReader(sink.Bytes()))); err != nil {
				implLine = "err restore " + err.Error()
			} else {
				implLine = "done"
			}
		}
		for p := range c.orc.window {
			c.orc.closeWindow(p)
		}
		for p, b := range snapBefore {
			a := im.dump(p)
			c.orc.observe(p, a, "after a snapshot restore")
			if b.present && (!a.present || a.leader != b.leader || a.le != b.le || a.e != b.e || c07Join(a.isr) != c07Join(b.isr)) && c.orc.tag == "" {
				c.orc.bad("restore-changes-leadership-state", "partition %s before the snapshot: %s; restored from it: %s", p, b, a)
			}
		}
		modLine, _ = c07Norm(c.ask("c07 lost"))
	case len(f) >= 2 && f[0] == "race":
		implLine, modLine = c.race(line)
	default:
		implLine, modLine = "bad-case-line", "bad-case-line"
	}
}

// race: `race <p> | <kind> <replica> <pair> | <kind> <replica> <pair>`.
func (c *c07Case) race(line string) (implLine, modLine string) {
	parts := strings.Split(line, "|")
	if len(parts) != 3 {
		return "bad-case-line", "bad-case-line"
	}
	p := strings.Fields(parts[0])[1]
	im := c.im
	type req struct {
		kind, replica, l string
		e                uint64
		st               *status.Status
		done             chan struct{}
	}
	var rs [2]*req
	for i := 0; i < 2; i++ {
		f := strings.Fields(parts[i+1])
		if len(f) != 3 {
			return "bad-case-line", "bad-case-line"
		}
		l, e := im.resolve(p, f[2])
		rs[i] = &req{kind: f[0], replica: f[1], l: l, e: e, done: make(chan struct{})}
	}
	before := im.dump(p)
	for _, r := range rs {
		if r.kind != "report" && before.present && !c07In(before.rep, r.replica) && !c.cfg["replicaOnly"] {
			return "skipped (would panic)", "skipped (would panic)"
		}
	}
	mark := im.mark()
	raft := im.s.getRaft()
	raft.Lock() // every proposal of the controller queues here
	for _, r := range rs {
		r := r
		go func() {
			defer close(r.done)
			r.st = im.request(r.kind, p, r.replica, r.l, r.e)
		}()
		time.Sleep(15 * time.Millisecond) // the request runs its incoming checks and parks on the lock
	}
	raft.Unlock()
	for _, r := range rs {
		select {
		case <-r.done:
		case <-time.After(20 * time.Second):
			return "race-timeout", "race-timeout"
		}
	}
	after := im.dump(p)
	entries := im.since(mark)
	// outcome per request, from its status and from the entries
	outs := make([]string, 2)
	for i, r := range rs {
		o := "ok"
		if r.st != nil {
			w := c07Why(r.st)
			o = "refused " + w
			if w == "no-candidates" {
				o = w
			}
		} else if r.kind == "report" {
			o = "reported" // which of two concurrent reports completed the quorum cannot be told from the statuses
		}
		outs[i] = o
	}
	var changes []string
	for _, e := range entries {
		if e.kind == "change" && e.stream == im.real(p) {
			changes = append(changes, e.target)
		}
	}
	implLine = outs[0] + " ; " + outs[1] + " ; changes=" + c07Join(changes) + " | " + after.String()
	// oracle: reports that passed the incoming check are reports of the pair they named
	for i, r := range rs {
		if r.kind == "report" && before.present && r.l == before.leader && r.e == before.le && !strings.HasPrefix(outs[i], "refused stale") {
			c.orc.reported(p, r.replica, r.l, r.e)
		}
		if before.present && (r.l != before.leader || r.e != before.le) && r.st == nil {
			c.orc.bad("stale-accepted", "%s %s %s naming (%s, %d) while the partition has (%s, %d) was accepted", r.kind, p, r.replica, r.l, r.e, before.leader, before.le)
		}
	}
	c.traced = mark
	c.trace(p, before, true)
	c.orc.observe(p, after, "after "+line)
	im.noteLeaderChange(p, before, after)

	// model: both requests are checked, then committed in some order (refused requests leave no
	// entry, and a refused leader change does not tell which candidate had been selected: try the
	// orders and the candidates)
	var eidx []uint64
	choices := []string{}
	for _, e := range entries {
		if e.stream == im.real(p) && (e.kind == "change" || e.kind == "shrink" || e.kind == "expand") {
			eidx = append(eidx, e.idx)
			if e.kind == "change" {
				choices = append(choices, e.target)
			}
		}
	}
	if len(choices) == 0 {
		for _, x := range before.isr {
			if x != before.leader {
				choices = append(choices, x)
			}
		}
		choices = append(choices, "-")
	}
	tryOrder := func(first int, choice [2]string) (string, []string) {
		var lines []string
		var mo [2]string
		inflight := []int{}
		for i, r := range rs {
			var ln string
			if r.kind == "report" {
				ln = fmt.Sprintf("c07 report %s %s %s %d %s", p, r.replica, r.l, r.e, choice[i])
			} else {
				ln = fmt.Sprintf("c07 %s %s %s %s %d", r.kind, p, r.replica, r.l, r.e)
			}
			lines = append(lines, ln)
			o, _ := c07Norm(c.model.Ask1(ln))
			mo[i] = o
			if o == "accepted" || strings.HasPrefix(o, "triggered ") {
				inflight = append(inflight, i)
			}
		}
		order := inflight
		if len(inflight) == 2 && first == 1 {
			order = []int{inflight[1], inflight[0]}
		}
		pos := map[int]int{}
		for k, i := range inflight {
			pos[i] = k
		}
		next := 0
		var mchanges []string
		for n, i := range order {
			k := pos[i]
			if n > 0 && pos[order[0]] < k {
				k--
			}
			idx := im.lastIndex() + 1 + uint64(n)
			if next < len(eidx) {
				idx = eidx[next]
			}
			ln := fmt.Sprintf("c07 commit %d %d", k, idx)
			lines = append(lines, ln)
			o2, _ := c07Norm(c.model.Ask1(ln))
			if o2 == "applied" {
				next++
			}
			switch {
			case mo[i] == "accepted" && (o2 == "applied" || o2 == "idempotent"):
				mo[i] = "ok"
			case mo[i] == "accepted":
				mo[i] = o2
			case o2 != "applied":
				// a report whose leader change was refused at the proposal: ReportLeader returns the refusal
				mo[i] = o2
			default:
				mchanges = append(mchanges, strings.TrimPrefix(mo[i], "triggered "))
				mo[i] = "reported"
			}
		}
		for i := range mo {
			if mo[i] == "recorded" {
				mo[i] = "reported"
			}
		}
		_, state := c07Norm(c.model.Ask1("c07 state " + p))
		lines = append(lines, "c07 state "+p)
		return mo[0] + " ; " + mo[1] + " ; changes=" + c07Join(mchanges) + " | " + state, lines
	}
	replayPrefix := func() {
		c.model.Ask1("c07 begin")
		for _, l := range c.sent {
			c.model.Ask1(l)
		}
	}
	firstTry := ""
	for _, ch0 := range choices {
		for _, ch1 := range choices {
			for first := 0; first < 2; first++ {
				m, ls := tryOrder(first, [2]string{ch0, ch1})
				if firstTry == "" {
					firstTry = m
				}
				if m == implLine {
					c.sent = append(c.sent, ls...)
					return implLine, m
				}
				replayPrefix()
			}
		}
	}
	_, ls := tryOrder(0, [2]string{choices[0], choices[0]})
	c.sent = append(c.sent, ls...)
	return implLine, firstTry + "   (no order/candidate of the model gives the implementation's outcome)"
}

// ---------- context ----------

type c07Ctx struct {
	t     *testing.T
	res   *vResult
	model *vModel
	im    *c07Impl
	cfg   map[string]bool
	tags  map[string]int
}

// runCase executes one case on the implementation and the model; returns the failure (if any).
func (cx *c07Ctx) runCase(lines []string) (c *c07Case) {
	c = &c07Case{im: cx.im, model: cx.model, orc: c07NewOracle(), cfg: cx.cfg}
	cx.model.Ask1("c07 begin")
	c.traced = cx.im.mark()
	func() {
		defer func() {
			if r := recover(); r != nil {
				c.impl = append(c.impl, fmt.Sprintf("panic: %v", r))
				c.mod = append(c.mod, "")
				c.orc.bad("harness-panic", "panic while running the case: %v", r)
			}
		}()
		for _, l := range lines {
			c.step(l)
			if c.inconclusive {
				break
			}
		}
	}()
	cx.im.cleanup()
	return c
}

func (cx *c07Ctx) judge(lines []string, nontrivial bool, src string) {
	c := cx.runCase(lines)
	if c.inconclusive {
		cx.res.Dist("inconclusive:raft-timeoutFuture-lost-wakeup")
		c = cx.runCase(lines) // once more
		if c.inconclusive {
			return
		}
	}
	cx.res.Count(strings.Join(lines, "\n"), nontrivial)
	if cx.res.Evaluations%499 == 1 {
		cx.res.Sample(map[string]interface{}{"source": src, "case": lines, "impl": c.impl})
	}
	if c.orc.fail != "" {
		cx.tags[c.orc.tag]++
		cx.res.Dist("spec:" + c.orc.tag)
		if cx.tags[c.orc.tag] <= 2 || src == "replay" {
			cx.res.Fail(vFailure{Kind: "spec", Case: lines, Impl: c.impl, Model: c.mod, Detail: src + ": " + c.orc.fail, Tag: c.orc.tag})
		}
		// the model must still agree with what the implementation did
	}
	if d := vFirstDiff(c.impl, c.mod); d >= 0 {
		cx.tags["disagreement"]++
		if cx.tags["disagreement"] <= 5 {
			cx.res.Fail(vFailure{Kind: "disagreement", Case: lines[:d+1], Impl: c.impl[:d+1], Model: c.mod[:d+1],
				Detail: fmt.Sprintf("%s: first difference at line %d; model lines: %s", src, d, strings.Join(c.sent, " / "))})
		}
	}
}

// ---------- generators ----------

func c07Alphabet(full bool) []string {
	a := []string{
		"report s c cur", "report s d cur", "report s x cur",
		"shrink s c cur", "expand s c cur", "shrink s b cur", "expire s",
	}
	if full {
		a = append(a, "report s c old", "report s b cur", "report s d ol-ce", "shrink s d old", "shrink s c cl-oe", "expand s c fut", "expand s d cur", "shrink s d cur", "lost")
	}
	return a
}

func (cx *c07Ctx) exhaustive(create string, alphabet []string, depth int) int {
	n := 0
	var rec func(prefix []string)
	rec = func(prefix []string) {
		if len(prefix) > 0 {
			lines := append([]string{create}, prefix...)
			reports := 0
			for _, l := range prefix {
				if strings.HasPrefix(l, "report") {
					reports++
				}
			}
			cx.judge(lines, reports >= 1, "exhaustive")
			cx.res.Dist(fmt.Sprintf("exhaustive:len%d", len(prefix)))
			n++
		}
		if len(prefix) == depth {
			return
		}
		for _, a := range alphabet {
			rec(append(append([]string(nil), prefix...), a))
		}
	}
	rec(nil)
	return n
}

func c07RandomCase(r *vRand, n int) []string {
	sets := [][]string{{"b", "c"}, {"b", "c", "d"}, {"b", "c", "d", "e"}, {"b", "c", "d", "e", "f"}}
	reps := sets[r.Intn(len(sets))]
	lines := []string{"create s " + strings.Join(reps, ",") + " " + reps[r.Intn(len(reps))]}
	two := r.Intn(4) == 0
	if two {
		lines = append(lines, "create t b,c,d c")
	}
	ids := append(append([]string(nil), reps...), "x", "y")
	pairs := []string{"cur", "cur", "cur", "cur", "cur", "old", "ol-ce", "cl-oe", "fut", "pe"}
	for i := 0; i < n; i++ {
		p := "s"
		if two && r.Intn(3) == 0 {
			p = "t"
		}
		id := ids[r.Intn(len(ids))]
		pair := pairs[r.Intn(len(pairs))]
		switch k := r.Intn(20); {
		case k < 9:
			lines = append(lines, fmt.Sprintf("report %s %s %s", p, id, pair))
		case k < 13:
			lines = append(lines, fmt.Sprintf("shrink %s %s %s", p, id, pair))
		case k < 16:
			lines = append(lines, fmt.Sprintf("expand %s %s %s", p, id, pair))
		case k < 18:
			lines = append(lines, "expire "+p)
		case k < 19:
			if r.Bool() {
				lines = append(lines, "lost")
			} else {
				lines = append(lines, "restore")
			}
		default:
			if r.Bool() {
				lines = append(lines, "remove "+p)
			} else {
				lines = append(lines, fmt.Sprintf("create %s %s %s", p, strings.Join(reps, ","), reps[0]))
			}
		}
	}
	return lines
}

func c07RandomRace(r *vRand) []string {
	sets := [][]string{{"b", "c"}, {"b", "c", "d"}, {"b", "c", "d", "e"}}
	reps := sets[r.Intn(len(sets))]
	lines := []string{"create s " + strings.Join(reps, ",") + " " + reps[0]}
	pre := []string{"report s c cur", "report s d cur", "shrink s d cur", "expand s d cur", "expire s"}
	for i := r.Intn(3); i > 0; i-- {
		lines = append(lines, pre[r.Intn(len(pre))])
	}
	reqs := []string{"report c cur", "report d cur", "report c cur", "shrink c cur", "shrink d cur", "expand c cur", "expand d cur", "shrink c old"}
	a := reqs[r.Intn(len(reqs))]
	b := reqs[r.Intn(len(reqs))]
	lines = append(lines, "race s | "+a+" | "+b)
	post := []string{"report s c cur", "report s d cur", "report s b cur", "shrink s c cur"}
	for i := r.Intn(3); i > 0; i-- {
		lines = append(lines, post[r.Intn(len(post))])
	}
	return lines
}

// c07ElectionRaces: a leader report that arrives WHILE the election it no longer belongs to is in flight. The first
// request of the race completes the quorum (the witnesses are used up, the leader change is parked on the Raft lock), the
// second one is a report of another in-sync follower naming the leader that is about to be replaced: it passes its
// incoming check on the same state. After the change every other replica reports the NEW leader once, one after the
// other: the oracle judges every further leader change on the reports that named the pair it replaces (a report about
// the old leader that survives the change makes the new leader fall one report early).
func c07ElectionRaces() [][]string {
	var out [][]string
	for _, reps := range [][]string{{"b", "c", "d", "e"}, {"b", "c", "d", "e", "f"}, {"b", "c", "d"}} {
		followers := reps[1:]
		need := (len(reps)-1)/2 + 1 // reports that depose the leader
		if need > len(followers)-1 {
			continue
		}
		for late := need; late < len(followers); late++ {
			lines := []string{"create s " + strings.Join(reps, ",") + " b"}
			for i := 0; i < need-1; i++ {
				lines = append(lines, "report s "+followers[i]+" cur")
			}
			lines = append(lines, "race s | report "+followers[need-1]+" cur | report "+followers[late]+" cur")
			for _, order := range [][]string{reps, {reps[len(reps)-1], reps[0], reps[1], reps[2]}} {
				c := append([]string(nil), lines...)
				for _, x := range order {
					c = append(c, "report s "+x+" cur")
				}
				out = append(out, c)
			}
		}
	}
	return out
}

// ---------- timing scenarios (real, short ReplicaMaxLeaderTimeout) ----------

func (cx *c07Ctx) waitNoEntry(p string, deadline time.Duration) (time.Duration, bool) {
	t0 := time.Now()
	for time.Since(t0) < deadline {
		if !cx.im.dump(p).hasFo {
			return time.Since(t0), true
		}
		time.Sleep(time.Millisecond)
	}
	return time.Since(t0), false
}

func (cx *c07Ctx) timing() {
	im := cx.im
	old := im.s.config.Clustering.ReplicaMaxLeaderTimeout
	defer func() { im.s.config.Clustering.ReplicaMaxLeaderTimeout = old }()
	const T = 150 * time.Millisecond
	im.s.config.Clustering.ReplicaMaxLeaderTimeout = T
	fail := func(tag, format string, a ...interface{}) {
		cx.res.Fail(vFailure{Kind: "spec", Case: []string{"timing scenario (ReplicaMaxLeaderTimeout = 150ms)"}, Detail: fmt.Sprintf(format, a...), Tag: tag})
	}
	// 1. one report of three followers: the entry must go away by itself after T, and a second
	//    report after that must NOT complete a quorum with the first one.
	if err := im.create("w", []string{"b", "c", "d", "e"}, "b"); err != nil {
		cx.t.Fatal(err)
	}
	sn := im.dump("w")
	t0 := time.Now()
	im.request("report", "w", "c", sn.leader, sn.le)
	if !im.dump("w").hasFo {
		fail("failover-window", "no failover entry after a first report")
	}
	el, gone := cx.waitNoEntry("w", 5*time.Second)
	cx.res.Note(fmt.Sprintf("timing: entry with one witness expired after %v (timeout %v)", el.Round(time.Millisecond), T))
	if !gone {
		fail("failover-window", "the failover entry did not expire within 5s (timeout %v)", T)
	} else if time.Since(t0) < T {
		fail("failover-window", "the failover entry expired after %v, before the timeout %v", time.Since(t0), T)
	}
	im.request("report", "w", "d", sn.leader, sn.le)
	after := im.dump("w")
	if after.leader != sn.leader {
		fail("failover-window", "two reports %v apart (timeout %v) triggered a failover: %s", time.Since(t0), T, after)
	}
	// 2. a report re-arms the timer: reports at 0 and ~0.6T keep the entry alive beyond T
	cx.waitNoEntry("w", 5*time.Second)
	t1 := time.Now()
	im.request("report", "w", "c", sn.leader, sn.le)
	time.Sleep(T * 6 / 10)
	im.request("report", "w", "c", sn.leader, sn.le) // same witness again: no quorum, timer reset
	t2 := time.Now()
	time.Sleep(T * 6 / 10)
	if time.Since(t2) < T*9/10 { // only meaningful when the scheduler kept the pace
		if sn2 := im.dump("w"); !sn2.hasFo {
			fail("failover-window", "the entry was gone %v after the last report (timeout %v): the repeated report did not re-arm the timer", time.Since(t2), T)
		} else if len(sn2.wit) != 1 {
			fail("failover-window", "duplicate report counted twice: %v", sn2.wit)
		}
		cx.res.Dist("timing:rearm-checked")
	} else {
		cx.res.Dist("timing:rearm-inconclusive(slow scheduler)")
	}
	_ = t1
	if _, gone := cx.waitNoEntry("w", 5*time.Second); !gone {
		fail("failover-window", "the re-armed entry never expired")
	}
	// 3. after a triggered failover nothing may stay behind that never expires
	im.request("report", "w", "c", sn.leader, sn.le)
	im.request("report", "w", "d", sn.leader, sn.le)
	after = im.dump("w")
	if after.leader == sn.leader {
		fail("failover-window", "two of three followers reported within the window and no failover happened: %s", after)
	}
	if _, gone := cx.waitNoEntry("w", 10*T); !gone {
		cx.res.Dist("timing:entry-immortal-after-failover")
		if cx.cfg["dropOnTrigger"] {
			fail("failover-witnesses-survive", "the failover entry %v is still there %v after the failover (stopped timer, never expires)", im.dump("w").wit, 10*T)
		}
	} else {
		cx.res.Dist("timing:entry-gone-after-failover")
	}
	// 4. a report by a replica that is NOT in the ISR at that moment opens a window like any other: the entry expires
	//    after T, so that once the replica is back in the ISR its old report cannot complete a quorum with a fresh one
	if err := im.create("w2", []string{"b", "c", "d", "e"}, "b"); err != nil {
		cx.t.Fatal(err)
	}
	sn = im.dump("w2")
	if st := im.request("shrink", "w2", "c", sn.leader, sn.le); st != nil {
		fail("failover-window", "fixture: shrinking the ISR by c was refused: %s", c07Why(st))
	}
	t4 := time.Now()
	im.request("report", "w2", "c", sn.leader, sn.le)
	hadEntry := im.dump("w2").hasFo
	sn = im.dump("w2")
	if st := im.request("expand", "w2", "c", sn.leader, sn.le); st != nil {
		fail("failover-window", "fixture: expanding the ISR by c was refused: %s", c07Why(st))
	}
	if hadEntry {
		if _, gone := cx.waitNoEntry("w2", 5*time.Second); !gone {
			fail("failover-window", "the failover entry opened by a report of a replica outside the ISR did not expire within 5s (timeout %v): %v", T, im.dump("w2").wit)
		}
	}
	if d := T - time.Since(t4); d > 0 {
		time.Sleep(d + T/5)
	}
	sn = im.dump("w2")
	im.request("report", "w2", "d", sn.leader, sn.le)
	if after := im.dump("w2"); after.leader != sn.leader {
		fail("failover-window", "c reported while outside the ISR, was re-added, and %v later (timeout %v) ONE fresh report by d deposed the leader: %s", time.Since(t4).Round(time.Millisecond), T, after)
	}
	cx.res.Dist(fmt.Sprintf("timing:report-outside-isr:entry=%v", hadEntry))
	cx.res.Count("timing", true)
	im.cleanup()
}

// ---------- crash scenario in a child process ----------

const c07ChildEnv = "VERIF_C07_CHILD"

// TestVerifC07Child runs one case on the implementation only and prints its lines; it is started
// by TestVerifC07 for requests that may kill the process (panic in Server.Apply).
func TestVerifC07Child(t *testing.T) {
	spec := os.Getenv(c07ChildEnv)
	if spec == "" {
		t.Skip("child of TestVerifC07")
	}
	cleanupStorage(t)
	s := vStartSingleNode(t, "a", 5071, func(c *Config) { c.Clustering.ReplicaMaxLeaderTimeout = time.Hour })
	im := &c07Impl{t: t, s: s, names: map[string]string{}, prev: map[string][2]string{}}
	for _, line := range strings.Split(spec, ";") {
		f := strings.Fields(line)
		switch f[0] {
		case "create":
			if err := im.create(f[1], strings.Split(f[2], ","), f[3]); err != nil {
				fmt.Printf("C07CHILD err %v\n", err)
			} else {
				fmt.Printf("C07CHILD done | %s\n", im.dump(f[1]))
			}
		default:
			l, e := im.resolve(f[1], f[3])
			before := im.dump(f[1])
			fmt.Printf("C07CHILD calling %s\n", line)
			os.Stdout.Sync()
			st := im.request(f[0], f[1], f[2], l, e)
			time.Sleep(50 * time.Millisecond) // a panic in the FSM goroutine needs a moment
			after := im.dump(f[1])
			fmt.Printf("C07CHILD %s | %s\n", c07ImplOutcome(f[0], st, before, after), after)
		}
		os.Stdout.Sync()
	}
	s.Stop()
	cleanupStorage(t)
}

func (cx *c07Ctx) crash(lines []string) {
	cmd := exec.Command(os.Args[0], "-test.run", "^TestVerifC07Child$", "-test.timeout", "60s")
	cmd.Env = append(os.Environ(), c07ChildEnv+"="+strings.Join(lines, ";"))
	done := make(chan struct{})
	var out []byte
	var err error
	go func() { out, err = cmd.CombinedOutput(); close(done) }()
	select {
	case <-done:
	case <-time.After(90 * time.Second):
		cmd.Process.Kill()
		<-done
	}
	var impl []string
	for _, l := range strings.Split(string(out), "\n") {
		if strings.HasPrefix(l, "C07CHILD ") && !strings.HasPrefix(l, "C07CHILD calling") {
			impl = append(impl, strings.TrimPrefix(l, "C07CHILD "))
		}
	}
	panicked := strings.Contains(string(out), "panic: failed to") || (err != nil && strings.Contains(string(out), "panic:"))
	detail := ""
	if panicked {
		for _, l := range strings.Split(string(out), "\n") {
			if strings.HasPrefix(l, "panic:") {
				detail = l
			}
		}
		impl = append(impl, "panic")
	}
	// model
	cx.model.Ask1("c07 begin")
	var mod []string
	idx := 10
	for _, line := range lines {
		f := strings.Fields(line)
		idx += 2
		if f[0] == "create" {
			o, s := c07Norm(cx.model.Ask1(fmt.Sprintf("c07 create %s %s %s %d", f[1], f[2], f[3], idx)))
			mod = append(mod, o+" | "+s)
			continue
		}
		// pairs in crash cases are "cur": the model's own current pair
		_, st := c07Norm(cx.model.Ask1("c07 state " + f[1]))
		l, e := "?", "0"
		for _, tok := range strings.Fields(st) {
			if strings.HasPrefix(tok, "L=") {
				l = tok[2:]
			}
			if strings.HasPrefix(tok, "le=") {
				e = tok[3:]
			}
		}
		o, s := c07Norm(cx.model.Ask1(fmt.Sprintf("c07 %s %s %s %s %s", f[0], f[1], f[2], l, e)))
		if o == "accepted" {
			o2, s2 := c07Norm(cx.model.Ask1(fmt.Sprintf("c07 commit 0 %d", idx)))
			s = s2
			if o2 == "applied" || o2 == "idempotent" {
				o = "ok"
			} else {
				o = o2
			}
		}
		if o == "panic" {
			mod = append(mod, "panic")
			break
		}
		mod = append(mod, o+" | "+s)
	}
	// epochs differ between the processes (the child has its own Raft log): compare outcomes and sets only
	strip := regexp.MustCompile(` (le|e)=\d+`)
	for i := range impl {
		impl[i] = strip.ReplaceAllString(impl[i], "")
	}
	for i := range mod {
		mod[i] = strip.ReplaceAllString(mod[i], "")
	}
	cx.res.Count("crash:"+strings.Join(lines, "\n"), true)
	cx.res.Dist("crash-scenario(child process)")
	if panicked {
		cx.res.Fail(vFailure{Kind: "spec", Case: append([]string{"child-process"}, lines...), Impl: impl, Model: mod,
			Detail: "an ISR change naming the CURRENT (leader, epoch) and a broker that is not a replica is proposed, fails in the FSM and kills the server in Server.Apply (every server of the cluster applies the same entry, and again at every restart): " + detail,
			Tag:    "isr-non-replica-crash"})
	}
	if len(impl) != len(mod) || vFirstDiff(impl, mod) >= 0 {
		cx.res.Fail(vFailure{Kind: "disagreement", Case: append([]string{"child-process"}, lines...), Impl: impl, Model: mod,
			Detail: "crash scenario: implementation and model differ; child output tail: " + c07Tail(string(out), 600)})
	}
}

func c07Tail(s string, n int) string {
	if len(s) > n {
		return s[len(s)-n:]
	}
	return s
}

// ---------- the test ----------

func TestVerifC07(t *testing.T) {
	model := vStartModel(t)
	defer model.Close()
	res := vNewResult("C07", "histories of ReportLeader / ShrinkISR / ExpandISR / timer expiry / LostLeadership / stream deletion and re-creation on the metadataAPI of a started "+
		"single-node controller over partitions with phantom replicas: exhaustive sequences up to length 4 over a 7-request alphabet and up to length 2 over 16 requests (length 4 over 16 requests, thorough), seeded random "+
		"histories of 4-24 requests over 2-5 replicas, 1-2 partitions, non-replica reporters, stale/old/future (leader, epoch) pairs; check-then-propose races with real goroutines "+
		"parked on the Raft lock; real-time expiry scenarios; a child process for requests that kill the server; canonical state after every step compared with the Lean model and "+
		"judged by a statement-level oracle that also sees the state after every applied Raft entry; non-trivial = at least one report accepted by the case; distinct by case text")
	defer res.Write(t)

	cfg := c07ParseCfg(model.Ask1("c07 cfg"))
	res.Note(fmt.Sprintf("structural facts regenerated from the source: %v", cfg))

	cleanupStorage(t)
	s := vStartSingleNode(t, "a", 5070, func(c *Config) { c.Clustering.ReplicaMaxLeaderTimeout = time.Hour })
	defer func() {
		s.Stop()
		cleanupStorage(t)
	}()
	im := &c07Impl{t: t, s: s, names: map[string]string{}, prev: map[string][2]string{}}
	s.AddRaftLogListener(im)
	cx := &c07Ctx{t: t, res: res, model: model, im: im, cfg: cfg, tags: map[string]int{}}

	if rc := vReplayCase(t); rc != nil {
		if len(rc) > 0 && rc[0] == "child-process" {
			cx.crash(rc[1:])
		} else if len(rc) > 0 && strings.HasPrefix(rc[0], "timing scenario") {
			cx.timing()
		} else {
			cx.judge(rc, true, "replay")
		}
		return
	}

	for _, c := range vCorpus(t, "C07") {
		if len(c) > 0 && c[0] == "child-process" {
			cx.crash(c[1:])
		} else {
			cx.judge(c, true, "corpus")
		}
		res.Dist("corpus")
	}

	cx.timing()

	// requests that cannot be applied (non-replica): in a child process
	// (ExpandISR of a non-replica: corpus/C07/isr-non-replica-crash.ops)
	cx.crash([]string{"create s b,c,d b", "shrink s q cur"})

	// exhaustive small scope
	small, full := c07Alphabet(false), c07Alphabet(true)
	if vThorough() {
		n := cx.exhaustive("create s b,c,d b", full, 4)
		res.Note(fmt.Sprintf("exhaustive: replicas b,c,d leader b, %d requests, depth 4: %d histories", len(full), n))
	} else {
		n := cx.exhaustive("create s b,c,d b", small, 4)
		res.Note(fmt.Sprintf("exhaustive: replicas b,c,d leader b, %d requests, depth 4: %d histories", len(small), n))
		n = cx.exhaustive("create s b,c,d b", full, 2)
		res.Note(fmt.Sprintf("exhaustive: replicas b,c,d leader b, %d requests, depth 2: %d histories", len(full), n))
	}
	n := 0
	n = cx.exhaustive("create s b,c b", []string{"report s c cur", "report s x cur", "shrink s c cur", "expand s c cur", "expire s", "report s c old"}, 3)
	res.Note(fmt.Sprintf("exhaustive: replicas b,c leader b, 6 requests, depth 3: %d histories", n))
	res.Exhaustive = true

	// random histories
	r := vNewRand(7)
	nr := 400
	if vThorough() {
		nr = 8000
	}
	for i := 0; i < nr; i++ {
		lines := c07RandomCase(r, 4+r.Intn(21))
		reports := 0
		for _, l := range lines {
			if strings.HasPrefix(l, "report") {
				reports++
			}
		}
		res.Dist(fmt.Sprintf("random:len%d-%d", (len(lines)-1)/8*8, (len(lines)-1)/8*8+7))
		cx.judge(lines, reports >= 1, "random")
	}

	// races
	nrace := 60
	if vThorough() {
		nrace = 600
	}
	for i := 0; i < nrace; i++ {
		res.Dist("race")
		cx.judge(c07RandomRace(r), true, "race")
	}
	for _, c := range c07ElectionRaces() {
		res.Dist("race:report-during-election")
		cx.judge(c, true, "race")
	}
	for tag, k := range cx.tags {
		res.Note(fmt.Sprintf("cases failing with tag %s: %d", tag, k))
	}
	_ = codes.OK
}
