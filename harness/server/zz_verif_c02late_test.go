//go:build verif

package server

// C02, follower side, across a leader change: answers that arrive LATE. One real server "a" follows a
// partition whose leaders are played by this harness over the server's own NATS (mock leaders "b",
// epoch 1, then "c", epoch 2, speaking the real replication protocol; the message sets they send are
// read from real commit logs the way replicator.replicate does). A fetch that a sent to b is still
// unanswered when the metadata change arrives (SetLeader("c", 2), what the FSM does); b - deposed but
// alive - answers it afterwards with messages it never committed. Scenarios: shared prefix of k
// committed messages, b's uncommitted tail of u, c's own messages v, and WHEN the late answer comes
// (before / after c answered the first fetch of the new term; never = control).
//
// Oracle (statement only): at the end, at every offset at or below both high watermarks (the
// follower's and the new leader's), the follower holds exactly the new leader's message.

import (
	"bytes"
	"context"
	"encoding/binary"
	"fmt"
	"os"
	"sync/atomic"
	"testing"
	"time"

	"github.com/nats-io/nats.go"

	"github.com/liftbridge-io/liftbridge/server/commitlog"
	proto "github.com/liftbridge-io/liftbridge/server/protocol"
)

const c02latePort = 19350

type c02lateLog struct {
	log commitlog.CommitLog
	dir string
}

func c02lateNewLog(t testing.TB) *c02lateLog {
	dir, err := os.MkdirTemp("", "verif-c02late-")
	if err != nil {
		t.Fatal(err)
	}
	l, err := commitlog.New(commitlog.Options{Path: dir})
	if err != nil {
		t.Fatal(err)
	}
	return &c02lateLog{log: l, dir: dir}
}

func (l *c02lateLog) close() { l.log.Close(); os.RemoveAll(l.dir) }

func (l *c02lateLog) append(t testing.TB, value string, epoch uint64) {
	if _, err := l.log.Append([]*commitlog.Message{{MagicByte: 1, Value: []byte(value), Timestamp: time.Now().UnixNano(),
		LeaderEpoch: epoch, Headers: map[string][]byte{}}}); err != nil {
		t.Fatal(err)
	}
}

// raw: the message sets stored at offsets from..to (headers + messages)
func (l *c02lateLog) raw(t testing.TB, from, to int64) []byte {
	var out []byte
	for off := from; off <= to && off <= l.log.NewestOffset(); off++ {
		ctx, cancel := context.WithTimeout(context.Background(), 5*time.Second)
		r, err := l.log.NewReader(off, true)
		if err != nil {
			cancel()
			t.Fatal(err)
		}
		headers := make([]byte, 28)
		msg, _, _, _, err := r.ReadMessage(ctx, headers)
		cancel()
		if err != nil {
			t.Fatal(err)
		}
		out = append(append(out, headers...), msg...)
	}
	return out
}

func (l *c02lateLog) values(t testing.TB, upTo int64) []string {
	var vs []string
	for off := int64(0); off <= upTo && off <= l.log.NewestOffset(); off++ {
		ctx, cancel := context.WithTimeout(context.Background(), 5*time.Second)
		r, err := l.log.NewReader(off, true)
		if err != nil {
			cancel()
			t.Fatal(err)
		}
		msg, _, _, ep, err := r.ReadMessage(ctx, make([]byte, 28))
		cancel()
		if err != nil {
			vs = append(vs, "ERR:"+err.Error())
			break
		}
		vs = append(vs, fmt.Sprintf("e%d:%s", ep, msg.Value()))
	}
	return vs
}

func c02lateResponse(epoch uint64, hw int64, data []byte) []byte {
	buf := new(bytes.Buffer)
	proto.WriteReplicationResponseHeader(buf)
	binary.Write(buf, proto.Encoding, epoch)
	binary.Write(buf, proto.Encoding, hw)
	buf.Write(data)
	return buf.Bytes()
}

type c02lateFetch struct {
	msg *nats.Msg
	req *proto.ReplicationRequest
}

func TestVerifC02LateResponse(t *testing.T) {
	res := vNewResult("C02", "[late answers across a leader change] real follower server, mock leaders over its NATS (b: epoch 1, c: epoch 2; message sets read from real commit logs): shared committed prefix k in 0..2, b's uncommitted tail u in 1..2, c's own messages v in 1..2, "+
		"the answer of the deposed leader b to a fetch of epoch 1 arrives never / before / after c answered the first fetch of epoch 2; oracle from C02: at every offset <= both high watermarks the follower holds the new leader's message; "+
		"non-trivial = the late answer is delivered; distinct by (k,u,v,when)")
	defer res.Write(t)
	cleanupStorage(t)
	s := vStartSingleNode(t, "a", c02latePort, func(c *Config) {
		c.Clustering.ReplicaMaxIdleWait = time.Hour
		c.Clustering.ReplicaFetchTimeout = 20 * time.Second
		c.Clustering.ReplicaMaxLeaderTimeout = time.Hour
	})
	defer func() { s.Stop(); cleanupStorage(t) }()
	nc, err := nats.Connect(fmt.Sprintf("nats://127.0.0.1:%d", c02latePort+1000))
	if err != nil {
		t.Fatal(err)
	}
	defer nc.Close()

	seq := 0
	run := func(k, u, v int, when string) {
		t0 := time.Now()
		lap := func(what string) {
			if os.Getenv("C02LATE_TIMING") != "" {
				fmt.Printf("[c02late] %s %v\n", what, time.Since(t0))
			}
		}
		defer lap("end")
		seq++
		line := fmt.Sprintf("c02late k=%d u=%d v=%d late=%s", k, u, v, when)
		name := fmt.Sprintf("late%d", seq)
		logB, logC := c02lateNewLog(t), c02lateNewLog(t)
		defer logB.close()
		defer logC.close()
		for i := 0; i < k; i++ {
			logB.append(t, fmt.Sprintf("m%d", i), 1)
			logC.append(t, fmt.Sprintf("m%d", i), 1)
		}
		for i := 0; i < u; i++ {
			logB.append(t, fmt.Sprintf("never-committed%d", i), 1)
		}
		for i := 0; i < v; i++ {
			logC.append(t, fmt.Sprintf("committed%d", i), 2)
		}
		p, err := s.newPartition(&proto.Partition{Subject: name, Stream: name, Replicas: []string{"a", "b", "c"},
			Leader: "b", LeaderEpoch: 1, Isr: []string{"a", "b", "c"}}, false, nil)
		if err != nil {
			t.Fatal(err)
		}
		defer p.Close()
		var endOffset int64 = int64(k) - 1
		var auto int32
		var autoHW int64
		fetches := make(chan *c02lateFetch, 256)
		sub1, err := nc.Subscribe(p.getLeaderOffsetRequestInbox(), func(msg *nats.Msg) {
			if r, err := proto.MarshalLeaderEpochOffsetResponse(&proto.LeaderEpochOffsetResponse{EndOffset: atomic.LoadInt64(&endOffset)}); err == nil {
				msg.Respond(r)
			}
		})
		if err != nil {
			t.Fatal(err)
		}
		defer sub1.Unsubscribe()
		sub2, err := nc.Subscribe(p.getReplicationRequestInbox(), func(msg *nats.Msg) {
			if atomic.LoadInt32(&auto) == 1 {
				msg.Respond(c02lateResponse(2, atomic.LoadInt64(&autoHW), nil))
				return
			}
			req, err := proto.UnmarshalReplicationRequest(msg.Data)
			if err != nil {
				return
			}
			fetches <- &c02lateFetch{msg, req}
		})
		if err != nil {
			t.Fatal(err)
		}
		defer sub2.Unsubscribe()
		nc.Flush()
		defer atomic.StoreInt32(&auto, 1)
		broken := ""
		next := func(epoch uint64) *c02lateFetch {
			for {
				select {
				case f := <-fetches:
					if f.req.LeaderEpoch != epoch {
						continue // a leftover of the previous term
					}
					return f
				case <-time.After(10 * time.Second):
					broken = fmt.Sprintf("no replication request in leader epoch %d within 10 s", epoch)
					return nil
				}
			}
		}
		waitNewest := func(n int64, d time.Duration) {
			for dl := time.Now().Add(d); time.Now().Before(dl) && p.log.NewestOffset() < n; {
				time.Sleep(2 * time.Millisecond)
			}
		}
		if err := p.SetLeader("b", 1); err != nil {
			t.Fatal(err)
		}
		// epoch 1: b sends the shared prefix (its HW covers it), then a fetch stays open
		f := next(1)
		if f == nil {
			res.Note(line + ": " + broken)
			return
		}
		if k > 0 {
			f.msg.Respond(c02lateResponse(1, int64(k)-1, logB.raw(t, 0, int64(k)-1)))
			waitNewest(int64(k)-1, 5*time.Second)
			f = next(1)
			if f == nil {
				res.Note(line + ": " + broken)
				return
			}
		}
		lap("prefix")
		open := f // unanswered fetch of epoch 1, a holds offsets 0..k-1
		if got := p.log.NewestOffset(); got != int64(k)-1 {
			res.Note(fmt.Sprintf("%s: set-up: follower holds up to %d, expected %d", line, got, k-1))
			return
		}
		// the leader changes: c leads epoch 2 from offset k
		if err := p.SetLeader("c", 2); err != nil {
			t.Fatal(err)
		}
		lap("setleader")
		f2 := next(2)
		lap("fetch2")
		if f2 == nil {
			res.Note(line + ": " + broken)
			return
		}
		late := func() {
			open.msg.Respond(c02lateResponse(1, int64(k)-1, logB.raw(t, int64(k), int64(k+u))))
			// give the follower time to handle it (it has to drop it)
			waitNewest(int64(k), 300*time.Millisecond)
		}
		if when == "before" {
			late()
		}
		f2.msg.Respond(c02lateResponse(2, int64(k)-1, logC.raw(t, int64(k), int64(k+v))))
		if when == "after" {
			time.Sleep(20 * time.Millisecond)
			late()
		}
		waitNewest(int64(k+v)-1, 3*time.Second)
		lap("replicated")
		// c has heard from a that it stored everything: HW = its newest offset
		leaderHW := int64(k+v) - 1
		atomic.StoreInt64(&autoHW, leaderHW)
		atomic.StoreInt32(&auto, 1)
		p.Notify()
		for dl := time.Now().Add(5 * time.Second); time.Now().Before(dl) && p.log.HighWatermark() < leaderHW; {
			// fetches that arrived before the mock leader went on auto-pilot are still open: answer them
			select {
			case f := <-fetches:
				if f.req.LeaderEpoch == 2 {
					f.msg.Respond(c02lateResponse(2, leaderHW, nil))
				}
			default:
			}
			p.Notify()
			time.Sleep(2 * time.Millisecond)
		}
		lap("hw")
		hw := p.log.HighWatermark()
		upTo := hw
		if leaderHW < upTo {
			upTo = leaderHW
		}
		fl := &c02lateLog{log: p.log}
		got, want := fl.values(t, upTo), logC.values(t, upTo)
		res.Count(line, when != "never")
		res.Dist("late=" + when)
		if fmt.Sprint(got) != fmt.Sprint(want) {
			res.Fail(vFailure{Kind: "spec", Case: []string{line}, Tag: "follower-diverges-below-hw-after-late-answer",
				Detail: fmt.Sprintf("follower HW %d, leader HW %d: follower holds %v, the leader %v at offsets 0..%d", hw, leaderHW, got, want, upTo)})
		}
	}
	for _, when := range []string{"never", "before", "after"} {
		for k := 0; k <= 2; k++ {
			for u := 1; u <= 2; u++ {
				for v := 1; v <= 2; v++ {
					if res.Enough() {
						return
					}
					run(k, u, v, when)
				}
			}
		}
	}
}
