//go:build verif

package server

// C11, SetCursor calls that FAIL: "the most recent SetCursor call that succeeded, or -1 if there was
// none". The cursors partition of a running single-node server is made read-only through the public
// API (SetStreamReadonly on the cursors stream), so that SetCursor's publish is refused; sequences of
// sets (some of them while read-only) and fetches over a few cursor ids, cache on and off, with cache
// evictions in between. ORACLE, from the statement alone: a set that returned an error changes
// nothing - every fetch returns the offset of the last set that returned success, or -1 (Tag
// fetch-returns-failed-set). The order of SetCursor's two effects (publish, then cache write only on
// success) is also a theorem about the regenerated body (Props/GoCursors.lean).

import (
	"context"
	"fmt"
	"os"
	"strings"
	"testing"
	"time"

	lru "github.com/hashicorp/golang-lru"
	client "github.com/liftbridge-io/liftbridge-api/v2/go"
)

func c11SetReadonly(s *Server, ro bool) error {
	ctx, cancel := context.WithTimeout(context.Background(), 10*time.Second)
	defer cancel()
	_, err := s.api.SetStreamReadonly(ctx, &client.SetStreamReadonlyRequest{Name: cursorsStream, Readonly: ro})
	return err
}

func TestVerifC11FailedSet(t *testing.T) {
	res := vNewResult("C11", "SetCursor calls refused because the cursors partition is read-only (made so through the public API), interleaved with successful sets, "+
		"fetches and cache evictions, cache on and off: every fetch must return the offset of the last SUCCESSFUL set of that cursor or -1; "+
		"non-trivial = at least one set failed and a later fetch of the same cursor was made; distinct by program")
	defer res.Write(t)
	dir, _ := os.MkdirTemp("", "verif-c11f-")
	defer os.RemoveAll(dir)
	var s *Server
	s = vStartSingleNode(t, "c11f", c11Port+30, func(c *Config) {
		c.DataDir = dir
		c.CursorsStream.Partitions = 1
		c.CursorsStream.AutoPauseTime = 0
		c.Streams.CleanerInterval = time.Hour
	})
	defer s.Stop()
	deadline := time.Now().Add(10 * time.Second)
	for s.metadata.GetStream(cursorsStream) == nil && time.Now().Before(deadline) {
		time.Sleep(10 * time.Millisecond)
	}
	rnd := vNewRand(0xC11F)
	n := 24
	if vThorough() {
		n = 200
	}
	ids := []string{"a", "b", "c"}
	for it := 0; it < n && !res.Enough(); it++ {
		cacheOn := it%3 != 2
		c, _ := lru.New(512)
		s.cursors.cache = c
		s.cursors.disableCache = !cacheOn
		stream := fmt.Sprintf("s%d", it) // fresh cursor keys per case
		last := map[string]int64{}
		ro := false
		var prog []string
		failedThenFetched := false
		failed := map[string]bool{}
		steps := 5 + rnd.Intn(8)
		bad := ""
		for k := 0; k < steps && bad == ""; k++ {
			id := ids[rnd.Intn(len(ids))]
			switch x := rnd.Intn(10); {
			case x < 4:
				off := int64(1 + rnd.Intn(90))
				ctx, cancel := context.WithTimeout(context.Background(), 10*time.Second)
				_, err := s.api.SetCursor(ctx, &client.SetCursorRequest{Stream: stream, Partition: 0, CursorId: id, Offset: off})
				cancel()
				if err == nil {
					last[id] = off
					prog = append(prog, fmt.Sprintf("set %s %d -> ok", id, off))
				} else {
					failed[id] = true
					prog = append(prog, fmt.Sprintf("set %s %d -> error", id, off))
				}
				if ro && err == nil {
					bad = "a SetCursor succeeded although the cursors stream is read-only (harness assumption)"
				}
			case x < 7:
				ctx, cancel := context.WithTimeout(context.Background(), 10*time.Second)
				resp, err := s.api.FetchCursor(ctx, &client.FetchCursorRequest{Stream: stream, Partition: 0, CursorId: id})
				cancel()
				want, ok := last[id]
				if !ok {
					want = -1
				}
				if err != nil {
					prog = append(prog, fmt.Sprintf("fetch %s -> error %v", id, err))
					continue // a fetch may fail (it is not a wrong answer); C11's other harness covers fetch errors
				}
				prog = append(prog, fmt.Sprintf("fetch %s -> %d", id, resp.Offset))
				if failed[id] {
					failedThenFetched = true
				}
				if resp.Offset != want {
					res.Fail(vFailure{Kind: "spec", Tag: "fetch-returns-failed-set", Case: append([]string{fmt.Sprintf("cache=%v", cacheOn)}, prog...),
						Impl: []string{fmt.Sprintf("%d", resp.Offset)}, Model: []string{fmt.Sprintf("%d", want)},
						Detail: fmt.Sprintf("FetchCursor(%s) returned %d; the last SetCursor of this cursor that SUCCEEDED stored %d (-1 = none)", id, resp.Offset, want)})
					bad = "-"
				}
			case x < 9:
				ro = !ro
				if err := c11SetReadonly(s, ro); err != nil {
					bad = "SetStreamReadonly on the cursors stream failed: " + err.Error()
				}
				prog = append(prog, fmt.Sprintf("readonly %v", ro))
			default:
				s.cursors.cache.Purge() // eviction: the next fetch reads the log
				prog = append(prog, "evict")
			}
		}
		if ro {
			c11SetReadonly(s, false)
		}
		if bad != "" && bad != "-" {
			res.Note("case abandoned: " + bad + " | " + strings.Join(prog, "; "))
		}
		res.Count(strings.Join(prog, ";"), failedThenFetched)
		res.Dist(fmt.Sprintf("cache=%v", cacheOn))
		if it < 2 {
			res.Sample(map[string]interface{}{"program": prog})
		}
	}
}
