//go:build verif

package server

// C11 with OVERLAPPING SetCursor calls on one cursor. Which of several concurrent sets is "the last"
// is not fixed by the statement; what it does fix: once all of them have returned, every fetch of the
// cursor returns the same stored offset, whatever serves it (the cache, or the log after an
// eviction), since no SetCursor happens in between (Tag fetch-changes-without-set), and that offset
// is one of those that were set (Tag fetch-returns-value-never-set).

import (
	"context"
	"fmt"
	"os"
	"sync"
	"testing"
	"time"

	lru "github.com/hashicorp/golang-lru"
	client "github.com/liftbridge-io/liftbridge-api/v2/go"
)

func TestVerifC11ConcurrentSets(t *testing.T) {
	res := vNewResult("C11", "[overlapping sets] running single-node server: for each of 40 (thorough: 400) cursors, 2-6 SetCursor calls with different offsets released together; after all returned: fetch (cache), evict, fetch (log), fetch again; "+
		"oracle from C11: the three fetches agree (no set in between) and return one of the offsets set; non-trivial = at least 3 writers; distinct by (cursor, writers)")
	defer res.Write(t)
	dir, _ := os.MkdirTemp("", "verif-c11c-")
	defer os.RemoveAll(dir)
	s := vStartSingleNode(t, "c11c", c11Port+40, func(c *Config) {
		c.DataDir = dir
		c.CursorsStream.Partitions = 1
		c.CursorsStream.AutoPauseTime = 0
		c.Streams.CleanerInterval = time.Hour
	})
	defer s.Stop()
	for dl := time.Now().Add(10 * time.Second); s.metadata.GetStream(cursorsStream) == nil && time.Now().Before(dl); {
		time.Sleep(10 * time.Millisecond)
	}
	c, _ := lru.New(512)
	s.cursors.cache = c
	s.cursors.disableCache = false
	rnd := vNewRand(0xC11C)
	n := 40
	if vThorough() {
		n = 400
	}
	fetch := func(id string) (int64, error) {
		ctx, cancel := context.WithTimeout(context.Background(), 10*time.Second)
		defer cancel()
		r, err := s.api.FetchCursor(ctx, &client.FetchCursorRequest{Stream: "conc", Partition: 0, CursorId: id})
		if err != nil {
			return 0, err
		}
		return r.Offset, nil
	}
	fails := 0
	for it := 0; it < n && fails < 3; it++ {
		id := fmt.Sprintf("k%d", it)
		w := 2 + rnd.Intn(5)
		line := fmt.Sprintf("c11conc cursor=%s writers=%d", id, w)
		var wg sync.WaitGroup
		start := make(chan struct{})
		errs := make([]error, w)
		for j := 0; j < w; j++ {
			wg.Add(1)
			go func(j int) {
				defer wg.Done()
				<-start
				ctx, cancel := context.WithTimeout(context.Background(), 10*time.Second)
				defer cancel()
				_, errs[j] = s.api.SetCursor(ctx, &client.SetCursorRequest{Stream: "conc", Partition: 0, CursorId: id, Offset: int64(100*it + j + 1)})
			}(j)
		}
		close(start)
		wg.Wait()
		ok := map[int64]bool{}
		for j, e := range errs {
			if e == nil {
				ok[int64(100*it+j+1)] = true
			}
		}
		if len(ok) == 0 {
			res.Note(line + ": every SetCursor failed")
			continue
		}
		a, e1 := fetch(id)
		s.cursors.cache.Purge()
		b, e2 := fetch(id)
		c2, e3 := fetch(id)
		res.Count(line, w >= 3)
		res.Dist(fmt.Sprintf("writers=%d", w))
		if e1 != nil || e2 != nil || e3 != nil {
			continue // a failed fetch is not a wrong answer
		}
		switch {
		case a != b || b != c2:
			fails++
			res.Fail(vFailure{Kind: "spec", Case: []string{line}, Tag: "fetch-changes-without-set",
				Detail: fmt.Sprintf("all %d SetCursor calls had returned; fetch = %d, after a cache eviction fetch = %d, again = %d: the stored cursor changed although nothing was set in between", w, a, b, c2)})
		case !ok[a] && len(ok) == w:
			fails++
			res.Fail(vFailure{Kind: "spec", Case: []string{line}, Tag: "fetch-returns-value-never-set", Detail: fmt.Sprintf("fetch = %d, the offsets set were %v", a, ok)})
		}
	}
}
