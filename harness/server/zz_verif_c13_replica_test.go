//go:build verif

package server

// C13 across the replicas of ONE partition: "at any moment at most one subscription per consumer group is active on a partition".
// The registry that enforces it (partition.consumers) exists once per replica OBJECT; the property is about the partition. Real
// two-server cluster (own NATS server), one stream replicated on both: a group member subscribes on the partition LEADER; then
// other members of the same group - newer, equal and OLDER group epoch, same and other consumer ids - ask the FOLLOWER with
// ReadISRReplica (the only way a follower serves a subscription at all). Oracle, from the statement: after every request, the
// subscriptions of the group that are active on the partition - over BOTH servers - are at most one; a subscriber carrying an
// older epoch leaves the current one untouched (Tag group-sub-two-active-across-replicas). A plain (group-less) subscriber is
// served by the follower (control: the scenario really reaches the follower's subscribe path).
// Lean side: Props.GoSubEntry.group_only_on_leader over the translated body of apiServer.SubscribeInternal.

import (
	"context"
	"fmt"
	"testing"
	"time"

	client "github.com/liftbridge-io/liftbridge-api/v2/go"
)

func TestVerifC13Replica(t *testing.T) {
	res := vNewResult("C13", "[two servers] a group member subscribed on the partition leader, then group members (epoch newer / equal / older, same / other consumer id) and a plain subscriber asking the FOLLOWER with ReadISRReplica: "+
		"at most one subscription of the group active on the partition over both servers; non-trivial = the follower was asked by a group member; distinct by request")
	defer res.Write(t)
	c := vNewClusterIDs(t, []string{"a", "b"}, 5330, 6330, 1, nil)
	defer c.close()
	// every subscription's context is cancelled BEFORE the servers stop (a parked subscription loop makes Server.Stop hang)
	var cancels []context.CancelFunc
	defer func() {
		for _, cf := range cancels {
			cf()
		}
		time.Sleep(100 * time.Millisecond)
	}()
	for _, id := range c.ids {
		if err := c.start(id); err != nil {
			t.Fatalf("fixture: start %s: %v", id, err)
		}
	}
	if err := c.createStream("verif-c13r"); err != nil {
		t.Fatalf("fixture: create stream: %v", err)
	}
	lead := c.leader(15 * time.Second)
	if lead == "" {
		t.Fatal("fixture: no partition leader")
	}
	fol := c.others(lead)[0]
	if !vWait(10*time.Second, func() bool { p := c.part(fol); return p != nil }) {
		t.Fatal("fixture: the follower has no partition object")
	}
	type live struct {
		where string
		sub   *subscription
		what  string
	}
	var subs []live
	active := func() (n int, which []string) {
		for _, l := range subs {
			select {
			case <-l.sub.Closed():
			default:
				n++
				which = append(which, l.what+"@"+l.where)
			}
		}
		return
	}
	ask := func(on string, group, consumer string, epoch uint64, readISR bool) (*subscription, error) {
		ctx, cancel := context.WithTimeout(context.Background(), 60*time.Second)
		cancels = append(cancels, cancel)
		req := &client.SubscribeRequest{Stream: "verif-c13r", Partition: 0, StartPosition: client.StartPosition_NEW_ONLY, ReadISRReplica: readISR}
		if group != "" {
			req.Consumer = &client.Consumer{GroupId: group, ConsumerId: consumer, GroupEpoch: epoch}
		}
		return c.srv[on].api.SubscribeInternal(ctx, req)
	}
	// the member on the leader
	first, err := ask(lead, "g", "c1", 5, false)
	if err != nil || first == nil {
		t.Fatalf("fixture: the group member could not subscribe on the leader: %v", err)
	}
	subs = append(subs, live{lead, first, "g/c1/e5"})
	// control: a plain subscriber IS served by the follower
	if s0, err := ask(fol, "", "", 0, true); err != nil || s0 == nil {
		res.Note(fmt.Sprintf("control: the follower refused a plain ReadISRReplica subscriber (%v) - the scenario does not reach the follower's subscribe path", err))
	} else {
		res.Dist("follower:plain-subscriber-served")
		s0.Close()
	}
	for _, q := range []struct {
		consumer string
		epoch    uint64
	}{{"c2", 3}, {"c2", 5}, {"c2", 9}, {"c1", 3}, {"c1", 5}, {"c3", 4}} {
		line := fmt.Sprintf("c13replica leader=%s has g/c1/e5 ; follower=%s asked by g/%s/e%d with ReadISRReplica", lead, fol, q.consumer, q.epoch)
		res.Count(line, true)
		res.Dist("follower:group-member")
		sub, err := ask(fol, "g", q.consumer, q.epoch, true)
		if err == nil && sub != nil {
			subs = append(subs, live{fol, sub, fmt.Sprintf("g/%s/e%d", q.consumer, q.epoch)})
		}
		time.Sleep(50 * time.Millisecond)
		n, which := active()
		older := q.epoch < 5
		switch {
		case n > 1:
			res.Fail(vFailure{Kind: "spec", Tag: "group-sub-two-active-across-replicas", Case: []string{line}, Impl: which,
				Detail: fmt.Sprintf("%d subscriptions of group g are active on the partition at the same time: %v", n, which)})
			return
		case older && n == 1 && which[0] != "g/c1/e5@"+lead:
			res.Fail(vFailure{Kind: "spec", Tag: "group-sub-two-active-across-replicas", Case: []string{line}, Impl: which,
				Detail: "a subscriber carrying an OLDER group epoch replaced the current member"})
			return
		}
	}
}
