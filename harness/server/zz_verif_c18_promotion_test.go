//go:build verif

package server

// C18 "every stream and consumer-group operation committed to the cluster appears in the activity stream at least once"
// for the operations committed WHILE the first controller is being promoted: a fresh single-node server with the activity
// stream enabled creates its internal streams (the activity stream itself and, when configured, the cursors stream) as
// part of becoming leader; those are committed stream operations like any other. Configurations: cursors stream off / 1 /
// 3 partitions. Afterwards two ordinary streams are created. Oracle (statement only): the Raft log is read back, every
// committed operation of a kind that is reported must have an event with its index as id in the activity stream within
// 75 s, and the ids in the stream's first occurrences are increasing.

import (
	"fmt"
	"testing"
	"time"

	pb "github.com/golang/protobuf/proto"
	"github.com/hashicorp/raft"
	client "github.com/liftbridge-io/liftbridge-api/v2/go"
	proto "github.com/liftbridge-io/liftbridge/server/protocol"
)

const c18pPort = 19870

func TestVerifC18Promotion(t *testing.T) {
	res := vNewResult("C18", "[operations committed during the first promotion] fresh single-node server, activity stream enabled, cursors stream with 0 / 1 / 3 partitions; the internal streams are created while the server becomes controller, then two ordinary streams; "+
		"the Raft log is read back: every committed stream / group operation must have an event with its index as id in the activity stream within 75 s, first occurrences in increasing order; non-trivial = cursors stream configured; distinct by (cursors partitions, operation index)")
	defer res.Write(t)
	for _, cur := range []int32{0, 1, 3} {
		func() {
			cleanupStorage(t)
			s := vStartSingleNode(t, "c18p", c18pPort, func(c *Config) {
				c.ActivityStream.Enabled = true
				c.ActivityStream.PublishTimeout = 2 * time.Second
				c.CursorsStream.Partitions = cur
			})
			defer func() { vC18Settle(s); s.Stop(); cleanupStorage(t) }()
			var p *partition
			for dl := time.Now().Add(15 * time.Second); time.Now().Before(dl); time.Sleep(10 * time.Millisecond) {
				if p = s.metadata.GetPartition(activityStream, 0); p != nil && p.IsLeader() && p.log != nil {
					break
				}
			}
			if p == nil {
				t.Fatal("no activity stream")
			}
			for i := 0; i < 2; i++ {
				name := fmt.Sprintf("c18p-%d-%d", cur, i)
				err := vCreateStream(s, &client.CreateStreamRequest{Subject: name, Name: name, ReplicationFactor: 1, Partitions: 1})
				if err != nil {
					t.Fatalf("create stream: %v", err)
				}
			}
			// the committed operations that are reported, from the Raft log itself
			want := map[uint64]string{}
			last := s.getRaft().LastIndex()
			for i := uint64(1); i <= last; i++ {
				l := new(raft.Log)
				if err := s.getRaft().store.GetLog(i, l); err != nil || l.Type != raft.LogCommand {
					continue
				}
				rl := &proto.RaftLog{}
				if rl.Unmarshal(l.Data) != nil {
					continue
				}
				switch rl.Op {
				case proto.Op_CREATE_STREAM:
					want[i] = "create " + rl.CreateStreamOp.Stream.Name
				case proto.Op_DELETE_STREAM, proto.Op_PAUSE_STREAM, proto.Op_RESUME_STREAM, proto.Op_SET_STREAM_READONLY,
					proto.Op_JOIN_CONSUMER_GROUP, proto.Op_LEAVE_CONSUMER_GROUP:
					want[i] = rl.Op.String()
				}
			}
			ids := func() []uint64 {
				vals, _ := c15LogValues(p)
				var out []uint64
				for _, v := range vals {
					ev := &client.ActivityStreamEvent{}
					if pb.Unmarshal([]byte(v), ev) == nil {
						out = append(out, ev.Id)
					}
				}
				return out
			}
			// (a publish that fails while the activity stream's partition is not ready yet is retried after 1, 2, 4, 8, 10 …
			// seconds: on a slow machine the events of the promotion arrive late, not never)
			var got []uint64
			t0 := time.Now()
			defer func() { res.Dist(fmt.Sprintf("all-events-after:%ds", int(time.Since(t0).Seconds()/5)*5)) }()
			for dl := time.Now().Add(75 * time.Second); time.Now().Before(dl); time.Sleep(50 * time.Millisecond) {
				got = ids()
				seen := map[uint64]bool{}
				for _, id := range got {
					seen[id] = true
				}
				all := true
				for i := range want {
					all = all && seen[i]
				}
				if all {
					break
				}
			}
			seen := map[uint64]bool{}
			var firsts []uint64
			for _, id := range got {
				if !seen[id] {
					firsts = append(firsts, id)
				}
				seen[id] = true
			}
			for i, what := range want {
				line := fmt.Sprintf("c18p cursors=%d op@%d %s", cur, i, what)
				res.Count(line, cur > 0)
				res.Dist(fmt.Sprintf("cursors-partitions:%d", cur))
				if !seen[i] {
					res.Fail(vFailure{Kind: "spec", Case: []string{line}, Tag: "activity-event-missing",
						Detail: fmt.Sprintf("the operation committed at Raft index %d (%s) has no event in the activity stream after 75 s; ids in the stream: %v", i, what, got)})
				}
			}
			for k := 1; k < len(firsts); k++ {
				if firsts[k] <= firsts[k-1] {
					res.Fail(vFailure{Kind: "spec", Case: []string{fmt.Sprintf("c18p cursors=%d", cur)}, Tag: "activity-order",
						Detail: fmt.Sprintf("first occurrences out of commit order: %v", firsts)})
					break
				}
			}
		}()
	}
}
