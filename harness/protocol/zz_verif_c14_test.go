//go:build verif

package protocol

// C14 correspondence + spec oracle for server/protocol/envelope.go.
//
//   - header grid: every (version, headerLen 0..255, flags, type) x total length x
//     CRC right/wrong, through checkEnvelope and UnmarshalReplicationResponse,
//     compared with the Lean model (Liftbridge.Envelope.check / unmarshalReplResp);
//   - classification (envelope or raw) as the publish path decides it;
//   - spec oracle on the implementation itself: never panics, accepted payload is
//     exactly data[headerLen:], wrong CRC rejected, decode(encode m) == m for every
//     envelope message type (reflectively filled messages).

import (
	"fmt"
	"hash/crc32"
	"reflect"
	"strings"
	"testing"

	pb "github.com/golang/protobuf/proto"
	client "github.com/liftbridge-io/liftbridge-api/v2/go"
)

// vC14Castagnoli: the checksum the envelope format documents (CRC-32C), computed with the harness's OWN table - never with a
// table of the implementation, so that a checksum function changed there shows as correct envelopes refused / wrong ones accepted
var vC14Castagnoli = crc32.MakeTable(crc32.Castagnoli)

func c14ErrEnum(err error) string {
	if err == nil {
		return ""
	}
	s := err.Error()
	switch {
	case strings.HasPrefix(s, "data missing envelope header"):
		return "short"
	case strings.HasPrefix(s, "unexpected envelope magic number"):
		return "magic"
	case strings.HasPrefix(s, "unknown envelope protocol"):
		return "version"
	case strings.HasPrefix(s, "invalid envelope header length"):
		return "hdrlen"
	case strings.HasPrefix(s, "MsgType mismatch"):
		return "type"
	case strings.HasPrefix(s, "incorrect envelope header size"):
		return "hdrsize"
	case strings.HasPrefix(s, "crc mismatch"):
		return "crc"
	case strings.HasPrefix(s, "not enough data"):
		return "notenough"
	}
	return "proto"
}

func c14ImplCheck(data []byte, ty byte) (out string) {
	defer func() {
		if r := recover(); r != nil {
			out = "panic"
		}
	}()
	p, err := checkEnvelope(data, msgType(ty))
	if err != nil {
		return "err " + c14ErrEnum(err)
	}
	return "ok " + vHexNN(p)
}

func c14ImplRepl(data []byte) (out string) {
	defer func() {
		if r := recover(); r != nil {
			out = "panic"
		}
	}()
	e, hw, body, err := UnmarshalReplicationResponse(data)
	if err != nil {
		return "err " + c14ErrEnum(err)
	}
	return fmt.Sprintf("ok %d %d %s", e, uint64(hw), vHexNN(body))
}

// every Unmarshal* entry point, for the no-panic oracle
var c14Decoders = []struct {
	name string
	ty   msgType
	f    func([]byte) (pb.Message, error)
}{
	{"Publish", msgTypePublish, func(d []byte) (pb.Message, error) { return UnmarshalPublish(d) }},
	{"Ack", msgTypeAck, func(d []byte) (pb.Message, error) { return UnmarshalAck(d) }},
	{"ReplicationRequest", msgTypeReplicationRequest, func(d []byte) (pb.Message, error) { return UnmarshalReplicationRequest(d) }},
	{"RaftJoinRequest", msgTypeRaftJoinRequest, func(d []byte) (pb.Message, error) { return UnmarshalRaftJoinRequest(d) }},
	{"RaftJoinResponse", msgTypeRaftJoinResponse, func(d []byte) (pb.Message, error) { return UnmarshalRaftJoinResponse(d) }},
	{"LeaderEpochOffsetRequest", msgTypeLeaderEpochOffsetRequest, func(d []byte) (pb.Message, error) { return UnmarshalLeaderEpochOffsetRequest(d) }},
	{"LeaderEpochOffsetResponse", msgTypeLeaderEpochOffsetResponse, func(d []byte) (pb.Message, error) { return UnmarshalLeaderEpochOffsetResponse(d) }},
	{"PropagatedRequest", msgTypePropagatedRequest, func(d []byte) (pb.Message, error) { return UnmarshalPropagatedRequest(d) }},
	{"PropagatedResponse", msgTypePropagatedResponse, func(d []byte) (pb.Message, error) { return UnmarshalPropagatedResponse(d) }},
	{"ServerInfoRequest", msgTypeServerInfoRequest, func(d []byte) (pb.Message, error) { return UnmarshalServerInfoRequest(d) }},
	{"ServerInfoResponse", msgTypeServerInfoResponse, func(d []byte) (pb.Message, error) { return UnmarshalServerInfoResponse(d) }},
	{"PartitionStatusRequest", msgTypePartitionStatusRequest, func(d []byte) (pb.Message, error) { return UnmarshalPartitionStatusRequest(d) }},
	{"PartitionStatusResponse", msgTypePartitionStatusResponse, func(d []byte) (pb.Message, error) { return UnmarshalPartitionStatusResponse(d) }},
	{"PartitionNotification", msgTypePartitionNotification, func(d []byte) (pb.Message, error) { return UnmarshalPartitionNotification(d) }},
}

var c14Encoders = map[string]func(pb.Message) ([]byte, error){
	"Publish":                   func(m pb.Message) ([]byte, error) { return MarshalPublish(m.(*client.Message)) },
	"Ack":                       func(m pb.Message) ([]byte, error) { return MarshalAck(m.(*client.Ack)) },
	"ReplicationRequest":        func(m pb.Message) ([]byte, error) { return MarshalReplicationRequest(m.(*ReplicationRequest)) },
	"RaftJoinRequest":           func(m pb.Message) ([]byte, error) { return MarshalRaftJoinRequest(m.(*RaftJoinRequest)) },
	"RaftJoinResponse":          func(m pb.Message) ([]byte, error) { return MarshalRaftJoinResponse(m.(*RaftJoinResponse)) },
	"LeaderEpochOffsetRequest":  func(m pb.Message) ([]byte, error) { return MarshalLeaderEpochOffsetRequest(m.(*LeaderEpochOffsetRequest)) },
	"LeaderEpochOffsetResponse": func(m pb.Message) ([]byte, error) { return MarshalLeaderEpochOffsetResponse(m.(*LeaderEpochOffsetResponse)) },
	"PropagatedRequest":         func(m pb.Message) ([]byte, error) { return MarshalPropagatedRequest(m.(*PropagatedRequest)) },
	"PropagatedResponse":        func(m pb.Message) ([]byte, error) { return MarshalPropagatedResponse(m.(*PropagatedResponse)) },
	"ServerInfoRequest":         func(m pb.Message) ([]byte, error) { return MarshalServerInfoRequest(m.(*ServerInfoRequest)) },
	"ServerInfoResponse":        func(m pb.Message) ([]byte, error) { return MarshalServerInfoResponse(m.(*ServerInfoResponse)) },
	"PartitionStatusRequest":    func(m pb.Message) ([]byte, error) { return MarshalPartitionStatusRequest(m.(*PartitionStatusRequest)) },
	"PartitionStatusResponse":   func(m pb.Message) ([]byte, error) { return MarshalPartitionStatusResponse(m.(*PartitionStatusResponse)) },
	"PartitionNotification":     func(m pb.Message) ([]byte, error) { return MarshalPartitionNotification(m.(*PartitionNotification)) },
}

var c14Protos = map[string]func() pb.Message{
	"Publish":                   func() pb.Message { return new(client.Message) },
	"Ack":                       func() pb.Message { return new(client.Ack) },
	"ReplicationRequest":        func() pb.Message { return new(ReplicationRequest) },
	"RaftJoinRequest":           func() pb.Message { return new(RaftJoinRequest) },
	"RaftJoinResponse":          func() pb.Message { return new(RaftJoinResponse) },
	"LeaderEpochOffsetRequest":  func() pb.Message { return new(LeaderEpochOffsetRequest) },
	"LeaderEpochOffsetResponse": func() pb.Message { return new(LeaderEpochOffsetResponse) },
	"PropagatedRequest":         func() pb.Message { return new(PropagatedRequest) },
	"PropagatedResponse":        func() pb.Message { return new(PropagatedResponse) },
	"ServerInfoRequest":         func() pb.Message { return new(ServerInfoRequest) },
	"ServerInfoResponse":        func() pb.Message { return new(ServerInfoResponse) },
	"PartitionStatusRequest":    func() pb.Message { return new(PartitionStatusRequest) },
	"PartitionStatusResponse":   func() pb.Message { return new(PartitionStatusResponse) },
	"PartitionNotification":     func() pb.Message { return new(PartitionNotification) },
}

// c14Fill fills exported fields of a protobuf struct with random values (depth-bounded).
func c14Fill(r *vRand, v reflect.Value, depth int) {
	switch v.Kind() {
	case reflect.Ptr:
		if depth <= 0 || r.Intn(4) == 0 {
			return
		}
		if v.Type().Elem().Kind() != reflect.Struct {
			return
		}
		v.Set(reflect.New(v.Type().Elem()))
		c14Fill(r, v.Elem(), depth-1)
	case reflect.Struct:
		for i := 0; i < v.NumField(); i++ {
			f := v.Type().Field(i)
			if f.PkgPath != "" || strings.HasPrefix(f.Name, "XXX_") {
				continue
			}
			c14Fill(r, v.Field(i), depth)
		}
	case reflect.String:
		n := r.Intn(6)
		b := make([]byte, n)
		for i := range b {
			b[i] = byte('a' + r.Intn(26))
		}
		v.SetString(string(b))
	case reflect.Int32, reflect.Int64, reflect.Int:
		if v.Type().Name() != "" && v.Type().Kind() == reflect.Int32 && v.Type().PkgPath() != "" {
			v.SetInt(int64(r.Intn(3))) // enum
		} else {
			v.SetInt(int64(r.U64()>>uint(r.Intn(64))) - int64(r.Intn(3)))
		}
	case reflect.Uint64, reflect.Uint32:
		v.SetUint(r.U64() >> uint(32+r.Intn(32)))
	case reflect.Bool:
		v.SetBool(r.Bool())
	case reflect.Slice:
		if v.Type().Elem().Kind() == reflect.Uint8 {
			if r.Intn(3) != 0 {
				v.SetBytes(r.Bytes(1 + r.Intn(9)))
			}
			return
		}
		n := r.Intn(3)
		if n == 0 || depth <= 0 {
			return
		}
		s := reflect.MakeSlice(v.Type(), n, n)
		for i := 0; i < n; i++ {
			e := s.Index(i)
			if e.Kind() == reflect.Ptr {
				e.Set(reflect.New(e.Type().Elem()))
				c14Fill(r, e.Elem(), depth-1)
			} else {
				c14Fill(r, e, depth-1)
			}
		}
		v.Set(s)
	case reflect.Map:
		n := r.Intn(3)
		if n == 0 {
			return
		}
		m := reflect.MakeMap(v.Type())
		for i := 0; i < n; i++ {
			k := reflect.New(v.Type().Key()).Elem()
			c14Fill(r, k, 0)
			e := reflect.New(v.Type().Elem()).Elem()
			if e.Kind() == reflect.Slice && e.Type().Elem().Kind() == reflect.Uint8 {
				e.SetBytes(r.Bytes(1 + r.Intn(5)))
			} else {
				c14Fill(r, e, depth-1)
			}
			m.SetMapIndex(k, e)
		}
		v.Set(m)
	}
}

var c14Magic = []byte{0xB9, 0x0E, 0x43, 0xB4}

type c14Case struct {
	data []byte
	ty   byte
}

func TestVerifC14(t *testing.T) {
	model := vStartModel(t)
	defer model.Close()
	res := vNewResult("C14", "header grid (magic ok/bad x version x headerLen 0..255 x flags x type) x total length x crc right/wrong, "+
		"plus random byte strings and encode/decode round trips of reflectively filled messages; "+
		"non-trivial = passes the magic check; distinct by (data, expected type)")
	defer res.Write(t)
	rnd := vNewRand(14)

	var cases []c14Case
	add := func(d []byte, ty byte) { cases = append(cases, c14Case{append([]byte(nil), d...), ty}) }

	if rc := vReplayCase(t); rc != nil {
		for _, l := range rc {
			var hx string
			var ty int
			if _, err := fmt.Sscanf(l, "c14 check %s %d", &hx, &ty); err == nil {
				var d []byte
				if hx != `""` {
					fmt.Sscanf(hx, "%x", &d)
				}
				add(d, byte(ty))
			}
		}
	} else {
		for _, c := range vCorpus(t, "C14") {
			for _, l := range c {
				var hx string
				var ty int
				if _, err := fmt.Sscanf(l, "c14 check %s %d", &hx, &ty); err == nil {
					var d []byte
					if hx != `""` {
						fmt.Sscanf(hx, "%x", &d)
					}
					add(d, byte(ty))
				}
			}
		}
		// header grid
		lengths := []int{0, 1, 4, 7, 8, 9, 11, 12, 13, 14, 24, 28, 40}
		types := []int{0, 1, 3, 14}
		hlStep := 1
		if vThorough() {
			types = []int{0, 1, 2, 3, 4, 5, 6, 7, 8, 9, 10, 11, 12, 13, 14, 15, 200}
			lengths = append(lengths, 2, 3, 5, 6, 10, 15, 16, 17, 27, 29, 64, 255, 256, 300)
		}
		for _, version := range []byte{0, 1} {
			for hl := 0; hl < 256; hl += hlStep {
				for flags := byte(0); flags < 4; flags++ {
					for _, ty := range types {
						for _, n := range lengths {
							d := make([]byte, 0, n)
							hdr := append(append([]byte{}, c14Magic...), version, byte(hl), flags, byte(ty))
							for i := 0; i < n; i++ {
								if i < len(hdr) {
									d = append(d, hdr[i])
								} else {
									d = append(d, byte(rnd.U64()))
								}
							}
							// correct CRC variant when the header has room for it
							if flags&1 == 1 && hl == 12 && n >= 12 && rnd.Bool() {
								c := crc32.Checksum(d[12:], vC14Castagnoli)
								Encoding.PutUint32(d[8:], c)
							}
							expect := byte(ty)
							if rnd.Intn(8) == 0 {
								expect = byte(rnd.Intn(16))
							}
							add(d, expect)
						}
					}
				}
			}
		}
		// bad magic / random strings
		nr := 3000
		if vThorough() {
			nr = 200000
		}
		for i := 0; i < nr; i++ {
			n := rnd.Intn(40)
			d := rnd.Bytes(n)
			if rnd.Intn(4) != 0 && n >= 4 {
				copy(d, c14Magic)
				if rnd.Bool() && n >= 5 {
					d[4] = 0
				}
				if rnd.Bool() && n >= 6 {
					d[5] = byte(rnd.Intn(n + 3))
				}
			}
			add(d, byte(rnd.Intn(16)))
		}
	}

	// ---- correspondence: checkEnvelope and UnmarshalReplicationResponse vs the model ----
	lines := make([]string, 0, 2*len(cases))
	for _, c := range cases {
		lines = append(lines, fmt.Sprintf("c14 check %s %d", vHexNN(c.data), c.ty))
		lines = append(lines, fmt.Sprintf("c14 repl %s", vHexNN(c.data)))
	}
	answers := model.Ask(lines)
	var classifyLines []string
	var classifyIdx []int
	for i, c := range cases {
		implCheck := c14ImplCheck(c.data, c.ty)
		implRepl := c14ImplRepl(c.data)
		mCheck, mRepl := answers[2*i], answers[2*i+1]
		nontrivial := len(c.data) >= 4 && string(c.data[:4]) == string(c14Magic)
		res.Count(lines[2*i], nontrivial)
		res.Dist("check:" + strings.SplitN(implCheck, " ", 3)[0] + ":" + func() string {
			f := strings.SplitN(implCheck, " ", 3)
			if f[0] == "err" {
				return f[1]
			}
			return ""
		}())
		if i%50021 == 0 {
			res.Sample(map[string]string{"op": lines[2*i], "impl": implCheck, "model": mCheck})
		}
		if implCheck == "panic" || implRepl == "panic" {
			res.Fail(vFailure{Kind: "spec", Case: []string{lines[2*i]}, Impl: []string{implCheck, implRepl},
				Model: []string{mCheck, mRepl}, Detail: "decoding panics", Tag: "envelope-decode-panic"})
		}
		if implCheck != mCheck {
			res.Fail(vFailure{Kind: "disagreement", Case: []string{lines[2*i]}, Impl: []string{implCheck}, Model: []string{mCheck}})
		}
		if implRepl != mRepl {
			res.Fail(vFailure{Kind: "disagreement", Case: []string{lines[2*i+1]}, Impl: []string{implRepl}, Model: []string{mRepl}})
		}
		// spec oracle on the implementation: accepted payload is exactly data[headerLen:]
		if strings.HasPrefix(implCheck, "ok ") {
			hl := int(c.data[5])
			if hl > len(c.data) || implCheck != "ok "+vHexNN(c.data[hl:]) || c.data[4] != 0 || c.data[7] != c.ty {
				res.Fail(vFailure{Kind: "spec", Case: []string{lines[2*i]}, Impl: []string{implCheck}, Detail: "accepted payload is not the envelope's payload", Tag: "envelope-wrong-payload"})
			}
			if c.data[6]&1 == 1 {
				if hl != 12 || crc32.Checksum(c.data[12:], vC14Castagnoli) != Encoding.Uint32(c.data[8:12]) {
					res.Fail(vFailure{Kind: "spec", Case: []string{lines[2*i]}, Impl: []string{implCheck}, Detail: "checksum mismatch accepted", Tag: "envelope-crc-accepted"})
				}
			}
		}
		// ... and the converse: "a payload whose optional checksum does not match is rejected" - one whose checksum IS the
		// documented CRC-32C of its payload must not be refused for its checksum ("decoded as exactly the envelope it encodes")
		if implCheck == "err crc" && len(c.data) >= 12 && c.data[5] == 12 && c.data[6]&1 == 1 &&
			crc32.Checksum(c.data[12:], vC14Castagnoli) == Encoding.Uint32(c.data[8:12]) {
			res.Fail(vFailure{Kind: "spec", Case: []string{lines[2*i]}, Impl: []string{implCheck}, Model: []string{mCheck},
				Detail: "an envelope whose checksum is the CRC-32C of its payload is refused with a checksum mismatch", Tag: "envelope-crc-refused"})
		}
		// classification on the publish path (type 0): pbok from the real protobuf decoder on the model's payload
		if c.ty == 0 {
			pbok := "0"
			if strings.HasPrefix(mCheck, "ok ") {
				hl := int(c.data[5])
				if hl <= len(c.data) && pb.Unmarshal(c.data[hl:], new(client.Message)) == nil {
					pbok = "1"
				}
			}
			classifyLines = append(classifyLines, fmt.Sprintf("c14 classify %s %s", vHexNN(c.data), pbok))
			classifyIdx = append(classifyIdx, i)
		}
	}
	cans := model.Ask(classifyLines)
	for k, i := range classifyIdx {
		c := cases[i]
		var impl string
		if p, _ := vCatch(func() {
			if _, err := UnmarshalPublish(c.data); err == nil {
				impl = "ok envelope"
			} else {
				impl = "ok raw " + vHexNN(c.data)
			}
		}); p {
			impl = "panic"
		}
		res.Count(classifyLines[k], true)
		res.Dist("classify:" + strings.SplitN(impl+" ", " ", 3)[1])
		if impl != cans[k] {
			res.Fail(vFailure{Kind: "disagreement", Case: []string{classifyLines[k]}, Impl: []string{impl}, Model: []string{cans[k]}})
		}
	}

	// ---- no decoder panics on any case (all entry points) ----
	for i, c := range cases {
		for _, d := range c14Decoders {
			if p, _ := vCatch(func() { d.f(c.data) }); p {
				res.Fail(vFailure{Kind: "spec", Case: []string{lines[2*i]}, Detail: "Unmarshal" + d.name + " panics", Tag: "envelope-decode-panic"})
				break
			}
		}
	}

	// ---- round trip: decode(encode m) == m, and model framing == implementation framing ----
	nrt := 60
	if vThorough() {
		nrt = 3000
	}
	var mlines []string
	var mwant []string
	for _, d := range c14Decoders {
		for k := 0; k < nrt; k++ {
			m := c14Protos[d.name]()
			c14Fill(rnd, reflect.ValueOf(m).Elem(), 3)
			enc, err := c14Encoders[d.name](m)
			if err != nil {
				t.Fatalf("marshal %s: %v", d.name, err)
			}
			got, err := d.f(enc)
			res.Count("rt:"+vHexNN(enc), true)
			res.Dist("roundtrip:" + d.name)
			if err != nil || !pb.Equal(got, m) {
				res.Fail(vFailure{Kind: "spec", Case: []string{"c14 roundtrip " + d.name + " " + vHexNN(enc)}, Detail: fmt.Sprintf("decode(encode m) != m: err=%v", err), Tag: "envelope-roundtrip"})
			}
			// framing only: protobuf map order differs between two Marshal calls, so the
			// payload handed to the model is the one the implementation produced
			if len(enc) < 8 {
				res.Fail(vFailure{Kind: "spec", Case: []string{"c14 roundtrip " + d.name}, Detail: "envelope shorter than its header", Tag: "envelope-roundtrip"})
				continue
			}
			body := enc[8:]
			mlines = append(mlines, fmt.Sprintf("c14 marshal %s %d", vHexNN(body), d.ty))
			mwant = append(mwant, "ok "+vHexNN(enc))
		}
	}
	mans := model.Ask(mlines)
	for i := range mlines {
		if mans[i] != mwant[i] {
			res.Fail(vFailure{Kind: "disagreement", Case: []string{mlines[i]}, Impl: []string{mwant[i]}, Model: []string{mans[i]}})
		}
	}
	if len(res.Failures) > 0 {
		t.Logf("C14: %d failures", len(res.Failures))
	}
}
