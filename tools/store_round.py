#!/usr/bin/env python3
"""Stores a round of confirmed seeded changes under /verif/seeded/<id>/ (patch.diff, demo, README.md, meta.json).
usage: store_round.py <round.json> <round-number> [eval-out-dir]
The detection text comes from the summaries written by tools/eval_seeded.sh (<tag>.summary, tag = <P>-m<i>[-rN]; the
highest N is the current state of the checks, the first one the state before any strengthening)."""
import json, os, re, shutil, sys, glob

R = json.load(open(sys.argv[1])); rnd = int(sys.argv[2]); OUT = sys.argv[3] if len(sys.argv) > 3 else '/tmp/ev-out'
PRE = sys.argv[4] if len(sys.argv) > 4 else ''   # tag prefix of the round's evaluations, e.g. 'r6-'

def parse(path):
    d = {'demo_without': None, 'demo_with': None, 'checks': []}
    for l in open(path):
        if l.startswith('demo-without-change:'): d['demo_without'] = 'PASS' in l
        if l.startswith('demo-with-change:'): d['demo_with'] = 'FAIL (as required)' in l
        m = re.match(r'check (\S+) \((\w+)\): rc=(\d+) violations=(\d+) no-failing-input=(\d+) broken=(\d+) tags=\[(.*)\]', l)
        if m: d['checks'].append(dict(prop=m.group(1), rc=int(m.group(3)), vio=int(m.group(4)), nfi=int(m.group(5)), broken=int(m.group(6)), tags=m.group(7).split()))
    return d

def verdict(c):
    if c['vio'] == 0: return "MISSED (check exits 0)" if c['rc'] == 0 else "check did not complete"
    s = "VIOLATION " + ("no-failing-input-found" if c['nfi'] and not [t for t in c['tags'] if t != 'unproved'] else "with failing input")
    tags = [t for t in c['tags'] if t != 'unproved']
    if tags: s += " (tags: " + ", ".join(tags) + ")"
    if c['broken']: s += "; broken proof obligations / lost decision points"
    return s

n = 0
for mid, e in R.items():
    src = e['src']; P = e['property']; base = PRE + os.path.basename(os.path.dirname(src)) + '-' + os.path.basename(src)
    sums = sorted(glob.glob(f'{OUT}/{base}.summary') + glob.glob(f'{OUT}/{base}-r*.summary') + glob.glob(f'{OUT}/{base}-x*.summary'),
                  key=lambda p: (0 if p.endswith(base + '.summary') else 1, p))
    evals = [(os.path.basename(p)[:-8], parse(p)) for p in sums]
    evals = [(t, d) for t, d in evals if d['checks']]
    d = f'/verif/seeded/{mid}'; os.makedirs(d, exist_ok=True)
    shutil.copy(src + '/patch.diff', d + '/patch.diff')
    for dm in sorted(glob.glob(src + '/demo*_test.go')): shutil.copy(dm, d + '/' + os.path.basename(dm) + '.txt')
    if os.path.exists(src + '/README.md'): shutil.copy(src + '/README.md', d + '/README.md')
    first = evals[0][1] if evals else None
    demo_ok = first and first['demo_without'] and first['demo_with']
    own = [(t, c) for t, dd in evals for c in dd['checks'] if c['prop'] == P]
    other = [(t, c) for t, dd in evals for c in dd['checks'] if c['prop'] != P]
    hist = []
    for t, c in own: hist.append(f"{t}: ./check {c['prop']}: {verdict(c)}")
    for t, c in other: hist.append(f"{t}: ./check {c['prop']}: {verdict(c)}")
    det = (f"./check {own[-1][1]['prop']}: " + verdict(own[-1][1])) if own else 'not evaluated'
    for t, c in other:
        if c['vio']: det += f"; also ./check {c['prop']}: {verdict(c)}"
    pkg = 'server'
    dms = sorted(glob.glob(src + '/demo*_test.go'))
    if dms: pkg = [l for l in open(dms[0]) if l.startswith('package ')][0].split()[1]
    meta = {"id": mid, "property": P, "round": rnd, "breaks": e['breaks'], "needs_to_manifest": e['needs'],
            "author": "fresh sub-agent given only the property text (tools/mutant_prompt.py) and its own scratch git worktree of /repo",
            "demo": {"file": ", ".join(os.path.basename(x) + '.txt' for x in dms) + " (copy to the package directory as *_test.go)", "package": pkg},
            "confirmed": ("demo passes without the change and fails with it, go build ./... ok, tests of the touched packages pass (tools/eval_seeded.sh in a scratch worktree; for package server the full suite was run by the authoring agent in a private network namespace, log in README.md)" if demo_ok else "NOT CONFIRMED"),
            "ran": [f"tools/eval_seeded.sh {src} {P} quick   (scratch worktree + demo with/without + package tests + VERIF_REPO=<worktree> ./check in a copy of /verif inside a private network namespace)"],
            "history": " | ".join(hist), "detection": det}
    json.dump(meta, open(d + '/meta.json', 'w'), indent=1)
    n += 1
    print(mid, '->', det)
print(n, 'stored')
