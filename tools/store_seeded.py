#!/usr/bin/env python3
"""Copies confirmed seeded changes (patch + demo + README) into /verif/seeded/<id>/ and writes meta.json.
Sources are the output directories of the mutation sub-agents (scratch, outside /verif); detection text is
derived from the latest evaluation log of /tmp/eval_mutant2.sh (worktree of /repo + patch, demo with/without,
package tests, VERIF_REPO=<worktree> ./check <property> in a separate copy of /verif)."""
import json, os, re, shutil, sys, glob

R = json.load(open(os.path.join(os.path.dirname(__file__), 'seeded_sources.json')))
RES = '/tmp/mut-results3'

def detection(src, prop):
    tag = f"{os.path.basename(os.path.dirname(src))}-{os.path.basename(src)}"
    full = f"{RES}/check-{tag}.full"
    if not os.path.exists(full):
        return None
    lines = open(full, errors='replace').read().splitlines()
    vio = [l for l in lines if l.startswith('VIOLATION')]
    ok = [l for l in lines if l.startswith('OK ')]
    if not vio:
        return "MISSED (" + (ok[-1] if ok else 'no verdict') + ")"
    tags = []
    nfif = any('no-failing-input-found' in v for v in vio)
    for v in vio:
        m = re.search(r'replay=(\S+)', v)
        if not m: continue
        f = f"{RES}/replay/{os.path.basename(m.group(1))}"
        if os.path.exists(f):
            try:
                r = json.load(open(f))
                if r.get('tag'): tags.append(r['tag'])
                elif r.get('kind') == 'disagreement': tags.append('model/implementation disagreement')
            except Exception:
                pass
    broken = len([l for l in lines if l.startswith('[check] broken:')])
    s = f"./check {prop}: VIOLATION " + ("no-failing-input-found" if nfif else "with failing input")
    if tags: s += " (tags: " + ", ".join(sorted(set(tags))) + ")"
    if broken: s += f"; {broken} broken proof obligations / lost decision points"
    return s

n = 0
for mid, e in R.items():
    src = e['src']
    if not os.path.isdir(src):
        print('skip (source gone):', mid); continue
    d = f'/verif/seeded/{mid}'
    os.makedirs(d, exist_ok=True)
    patch = src + '/patch.rebased.diff' if os.path.exists(src + '/patch.rebased.diff') else src + '/patch.diff'
    shutil.copy(patch, d + '/patch.diff')
    demos = sorted(glob.glob(src + '/demo*_test.go'))
    for dm in demos:
        shutil.copy(dm, d + '/' + os.path.basename(dm) + '.txt')
    if os.path.exists(src + '/README.md'): shutil.copy(src + '/README.md', d + '/README.md')
    pkg = [l for l in open(demos[0]) if l.startswith('package ')][0].split()[1]
    det = detection(src, e.get('checked_by', e['property']))
    old = {}
    if os.path.exists(d + '/meta.json'):
        old = json.load(open(d + '/meta.json'))
    meta = {"id": mid, "property": e['property'], "round": e['round'], "breaks": e['breaks'], "needs_to_manifest": e['needs'],
            "author": "fresh sub-agent given only the property text (statement, quantifier, anchors) and its own scratch git worktree of /repo",
            "demo": {"file": ", ".join(os.path.basename(x) + '.txt' for x in demos) + " (copy to the package directory as *_test.go)", "package": pkg},
            "confirmed": "in a scratch worktree of /repo: demo passes without the change, fails with it; go build ./... ok; existing tests of the touched package pass with the change (for package server the full suite with the change was run by the authoring agent in a private network namespace, log in README.md)",
            "ran": ["/tmp/eval_mutant2.sh <dir> " + e.get('checked_by', e['property']) + "  (worktree + demo with/without + package tests + VERIF_REPO=<worktree> ./check in a separate copy of /verif)"],
            "history": e.get('history', ''),
            "detection": det or old.get('detection', 'not evaluated')}
    json.dump(meta, open(d + '/meta.json', 'w'), indent=1)
    n += 1
print(n, 'stored')
