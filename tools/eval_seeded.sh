#!/bin/bash
# Evaluate one seeded change against the checks, without touching /repo or /verif's evidence.
#   tools/eval_seeded.sh <dir with patch.diff [+ demo_test.go | demo*_test.go.txt]> <property> [tier] [extra check ids...]
# Steps (all in scratch space under $EV, default /tmp/ev, removed at the end):
#   1. git worktree of /repo HEAD; demo without the change must PASS          (skipped with NODEMO=1)
#   2. git apply patch; go build ./...; demo with the change must FAIL
#   3. existing tests of the touched packages (server only with FULL=1; the authoring agent ran it)
#   4. copy of /verif (incl. build output), VERIF_REPO=<worktree> ./check <property> --tier <tier>, inside a private
#      network namespace so that concurrent evaluations cannot clash on NATS ports
# Result: $OUT/<tag>.summary (one line per step) and $OUT/<tag>.check.log, $OUT/replay-<tag>/
set -u
SRC=$(readlink -f "$1"); PROP=$2; TIER=${3:-quick}; shift; shift; shift || true
EXTRA="$*"
EV=${EV:-/tmp/ev}; OUT=${OUT:-/tmp/ev-out}
TAG=${TAG:-$(basename "$(dirname "$SRC")")-$(basename "$SRC")}
export GOFLAGS=-mod=mod GOPROXY=off
mkdir -p "$EV" "$OUT"
WT=$EV/$TAG/wt; VC=$EV/$TAG/verif
SUM=$OUT/$TAG.summary; : > "$SUM"
say() { echo "$*" | tee -a "$SUM"; }
cleanup() { git -C /repo worktree remove --force "$WT" >/dev/null 2>&1; rm -rf "$EV/$TAG"; git -C /repo worktree prune; }
trap cleanup EXIT
rm -rf "$EV/$TAG"; mkdir -p "$EV/$TAG"
git -C /repo worktree add --detach "$WT" HEAD >/dev/null 2>&1 || { say "worktree: FAILED"; exit 2; }

DEMOS=$(ls "$SRC"/demo*_test.go "$SRC"/demo*_test.go.txt 2>/dev/null)
PKGDIR=""
if [ -n "$DEMOS" ] && [ -z "${NODEMO:-}" ]; then
  first=$(echo "$DEMOS" | head -1)
  pkg=$(grep -m1 '^package ' "$first" | awk '{print $2}')
  case "$pkg" in
    commitlog) PKGDIR=server/commitlog;; server) PKGDIR=server;; protocol) PKGDIR=server/protocol;;
    encryption) PKGDIR=server/encryption;; telemetry) PKGDIR=server/telemetry;; *) PKGDIR=$(grep -rl --include=*.go "^package $pkg\$" "$WT" | head -1 | xargs dirname | sed "s|$WT/||");;
  esac
  i=0
  for d in $DEMOS; do i=$((i+1)); cp "$d" "$WT/$PKGDIR/zz_seeded_demo${i}_test.go"; done
  PAT=$(cat $DEMOS | sed -n 's/^func \(Test[A-Za-z0-9_]*\)(.*/\1/p' | paste -sd'|')
  rundemo() { unshare -rn sh -c "ip link set lo up; cd $WT && timeout 600 go test -vet=off -count=1 -timeout 9m -run '^($PAT)\$' ./$PKGDIR" > "$OUT/$TAG.demo.$1.log" 2>&1; }
  rundemo without; rc=$?
  if [ $rc -eq 0 ] && grep -q '^ok' "$OUT/$TAG.demo.without.log"; then say "demo-without-change: PASS"; else say "demo-without-change: FAIL(rc=$rc) !!"; fi
fi
if ! git -C "$WT" apply --whitespace=nowarn "$SRC/patch.diff" 2> "$OUT/$TAG.apply.log"; then say "apply: FAILED"; exit 2; fi
say "apply: ok ($(git -C "$WT" diff --stat -- . ':!*_test.go' | tail -1 | sed 's/^ *//'))"
if (cd "$WT" && go build ./... ) > "$OUT/$TAG.build.log" 2>&1; then say "build: ok"; else say "build: FAILED"; exit 2; fi
if [ -n "$PKGDIR" ]; then
  rundemo with; rc=$?
  if [ $rc -ne 0 ] && grep -q -- '--- FAIL\|^FAIL\|panic:' "$OUT/$TAG.demo.with.log"; then say "demo-with-change: FAIL (as required)"; else say "demo-with-change: PASS(rc=$rc) !! change not demonstrated"; fi
  rm -f "$WT/$PKGDIR"/zz_seeded_demo*_test.go
fi
TOUCHED=$(git -C "$WT" diff --name-only | xargs -n1 dirname | sort -u)
for p in $TOUCHED; do
  if [ "$p" = server ] && [ -z "${FULL:-}" ]; then say "tests ./$p: not re-run here (authoring agent's log in README.md)"; continue; fi
  if unshare -rn sh -c "ip link set lo up; cd $WT && timeout 1700 go test -vet=off -count=1 -timeout 25m ./$p" > "$OUT/$TAG.pkgtest.$(echo $p | tr / _).log" 2>&1; then say "tests ./$p: pass"; else say "tests ./$p: FAIL !!"; fi
done
if [ -n "${NOCHECK:-}" ]; then exit 0; fi
rsync -a --exclude .git --exclude evidence/ --exclude replay/ /verif/ "$VC"/
mkdir -p "$VC/evidence"
for id in $PROP $EXTRA; do
  ( cd "$VC" && unshare -rn sh -c "ip link set lo up; VERIF_REPO=$WT timeout ${CHECK_TIMEOUT:-3000} ./check $id --tier $TIER" ) > "$OUT/$TAG.check.$id.log" 2>&1
  rc=$?
  vio=$(grep -c '^VIOLATION' "$OUT/$TAG.check.$id.log")
  nf=$(grep -c 'no-failing-input-found' "$OUT/$TAG.check.$id.log")
  tags=""
  mkdir -p "$OUT/replay-$TAG"
  for f in $(grep '^VIOLATION' "$OUT/$TAG.check.$id.log" | sed -n 's/.*replay=\([^ ]*\).*/\1/p'); do
     [ -f "$f" ] || f="$VC/$f"
     [ -f "$f" ] && { cp "$f" "$OUT/replay-$TAG/"; t=$(python3 -c "import json,sys; r=json.load(open('$f')); print(r.get('tag') or r.get('kind') or '')" 2>/dev/null); tags="$tags $t"; }
  done
  broken=$(grep -c '^\[check\] broken:' "$OUT/$TAG.check.$id.log")
  say "check $id ($TIER): rc=$rc violations=$vio no-failing-input=$nf broken=$broken tags=[$(echo $tags | tr ' ' '\n' | sort -u | tr '\n' ' ')]"
done
