#!/usr/bin/env python3
"""Prints the brief for a mutation sub-agent: the text of ONE property (from properties.jsonl) and the
path of its own scratch git worktree of /repo. Nothing else from /verif goes into the brief.
usage: mutant_prompt.py <property-id> <scratch-root> [n-changes]"""
import json, os, sys

pid, root = sys.argv[1], sys.argv[2]
n = int(sys.argv[3]) if len(sys.argv) > 3 else 2
# --avoid: list the one-line descriptions of changes authored in earlier rounds for this property (what they
# change, nothing about whether or how any check reacts), so that a new author explores other sites
avoid = []
if '--avoid' in sys.argv:
    import glob
    for m in sorted(glob.glob(os.path.join(os.path.dirname(__file__), '..', 'seeded', pid + '-*', 'meta.json'))):
        avoid.append(json.load(open(m))['breaks'])
prop = None
for l in open(os.path.join(os.path.dirname(__file__), '..', 'properties.jsonl')):
    d = json.loads(l)
    if d['id'] == pid:
        prop = d
text = {k: prop[k] for k in ('id', 'title', 'statement', 'quantifier', 'why_tests_cant', 'anchors')}
wt = f"{root}/{pid}/wt"
AVOID = ""
if avoid:
    AVOID = "ALREADY SUBMITTED BY OTHER AUTHORS (do NOT repeat these or close variants of them: pick other functions, other mechanisms;\nthe less obvious the site, the better):\n" + "".join("  - " + a + "\n" for a in avoid) + "\n"
print(f"""You are helping to evaluate a verification effort for the Go project liftbridge (a Kafka-style replicated message log on NATS).
Your job: author {n} DIFFERENT realistic code changes ("seeded defects") to liftbridge, each of which BREAKS the semantic property below
while the project still compiles and its EXISTING test suite still passes. Each change must come with a demonstration.

Your private scratch git worktree of the repository is: {wt}
Work ONLY there and in {root}/{pid}/ . Never read or write /verif, never touch /repo itself (no commits, no edits; the worktree is yours).
Do not commit in the worktree either: leave changes as working-tree edits and produce patches with `git diff`.

THE PROPERTY (this is all you are given about what is being verified):
{json.dumps(text, indent=1)}

WHAT KIND OF CHANGE
* A plausible mistake a developer could make in a refactoring, optimisation, or bug fix: an off-by-one, a lost else/continue, a condition
  narrowed or widened, a lock narrowed, a cached value used where the current one is needed, a step moved across another, a field not copied,
  an early return, a comparison of the wrong pair, a wrong variable of the same type.
* It must need something SPECIFIC to manifest: a particular interleaving, a crash or fault at a particular point, a multi-step sequence of
  operations, an unusual input, or two cooperating sites that each look fine alone. NOT something ordinary use would expose at once.
* It must really break the property as stated (a user-visible wrong outcome covered by the statement), not merely change an error message,
  a log line, performance, or something the statement does not speak about.
* Small: typically 1-15 changed lines of non-test code. Do not edit existing tests, do not add build tags, do not touch go.mod.
* The {n} changes must differ in mechanism and preferably in file/function. Prefer sites a reviewer would not look at first: glue code,
  recovery paths, rarely-taken branches, the second or third copy of duplicated logic.

{AVOID}BUILD/TEST ENVIRONMENT (no network):
  export GOFLAGS=-mod=mod GOPROXY=off      # in every shell call; do NOT set GOTOOLCHAIN or GOSUMDB
  cd {wt} && go build ./... && go vet ./server/... 2>/dev/null | head   # build must pass
  Tests of a package:  go test -vet=off -count=1 -timeout 25m ./server/commitlog   (etc.)
  Package ./server starts embedded NATS servers on fixed ports: other jobs run on this machine at the same time, so ALWAYS run ./server tests
  inside a private network namespace:
     unshare -rn sh -c 'ip link set lo up; export GOFLAGS=-mod=mod GOPROXY=off; cd {wt} && go test -vet=off -count=1 -timeout 25m ./server 2>&1 | tail -40'
  The ./server suite takes 5-12 minutes. A few of its tests are timing-sensitive; if a test fails with your change, re-run that single test
  without your change to see whether it is flaky on its own before drawing conclusions. NEVER use `git stash` (the stash is shared by all
  worktrees of the repository and other jobs use it): save your change with `git diff > /some/file`, undo it with `git checkout -- .`,
  bring it back with `git apply /some/file`.
  Always give commands an explicit timeout; never leave a hanging process behind.

FOR EACH CHANGE i (1..{n}) deliver a directory {root}/{pid}/m<i>/ containing:
  patch.diff     `git diff` of the worktree (non-test code only), applying cleanly with `git apply` to the worktree's HEAD
  demo_test.go   a NEW Go test file (package clause of the package it must be copied into; name the test TestSeededDemo<Something>) that
                 PASSES on the unchanged code and FAILS with the change. It may use unexported identifiers of that package and the package's
                 existing test helpers. It must be deterministic, finish in < 60 s, clean up its temp dirs, and never hang (use contexts with
                 deadlines; never call ReadMessage/Subscribe with a non-cancellable context).
  README.md      (a) one-sentence summary of the change; (b) which clause of the property it breaks and how a user would observe it;
                 (c) what it needs in order to manifest; (d) the package directory the demo goes into; (e) the exact commands you ran and
                 their results: build, demo without the change (pass), demo with the change (fail), existing tests of every package you
                 touched with the change (pass; quote the final `ok` lines). If the change touches package server, the whole ./server suite
                 must have been run with it.
Between changes, reset the worktree (git checkout -- . ; remove your demo file) so that each patch is independent and relative to HEAD.

When done, reply with a short summary: for each change the one-sentence summary, files touched, and whether every requirement above was
met (be honest about anything you could not confirm). If after serious effort you can only produce fewer than {n} changes, say so.
""")
