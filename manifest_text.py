# Human-written texts of MANIFEST.json, per property.
TEXT = {
 "C14": dict(
  level="Proof: Lean 4 theorems (check_total, unmarshal_total, replResp_total, classify_total, check_marshal, unmarshal_marshal, check_ok_exact, raw_verbatim, envelope_exact) about a model of checkEnvelope/marshalEnvelope/UnmarshalReplicationResponse/getMessage, for ALL byte strings, types, CRC functions and protobuf codecs. The model is tied to the code on every run: constants and the four comparison operators of the decoder are regenerated from envelope.go, and a differential harness runs ~135k (quick) header-grid and random inputs through the real decoders and the compiled model, plus an implementation-side spec oracle (no panic in any of the 14 Unmarshal* entry points, accepted payload = data[headerLen:], wrong CRC rejected, decode(encode m) = m).",
  design_ref="DESIGN.md section 4 (C14)",
  note="Trusted: Lean kernel; axioms propext/Quot.sound/Classical.choice at most; extractor and harness; protobuf codec and CRC-32C are parameters/hypotheses; Go slicing semantics as modelled.",
  technique="Lean 4 proof over model of envelope codec + regenerated guards + differential correspondence",
 ),
}
NOT_YET = {}
