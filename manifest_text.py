# Human-written texts of MANIFEST.json, per property.
LOG_NOTE = ("Trusted: Lean kernel; axioms propext/Quot.sound/Classical.choice at most; /verif/extract and the in-package Go harness; the commit-log MODEL is hand-written "
            "(Model/Log.lean: segments, derived index, sort.Search mirror, epoch cache, readers) and tied to /repo by (a) ~25 comparison operators regenerated from the source on every run and "
            "(b) differential runs of generated programs on real commit logs in temp dirs; OS file system, mmap and the Go runtime are below the model.")

TEXT = {
 "C01": dict(
  level="Proof: 17 Lean theorems about the commit-log model for EVERY reachable log state (invariant Inv: inv_init/inv_step/reachable_inv by induction over arbitrary operation sequences, every segment-size limit): append assigns consecutive offsets and stores exactly the given ts/epoch/key/value/headers (append_spec, appendSet_spec, append_dense), truncate removes exactly the suffix (truncate_spec/_prefix), every other operation only extends the log (immutable_step/_run), clean reopen preserves it (reopen_spec), an uncommitted reader from ANY start offset returns exactly the retained records >= start in order across segments (readUncommitted_spec/_beyond), a committed reader exactly those in [start, hw] (readCommitted_spec), results strictly increasing (read_sorted). Tie: regenerated guards + differential harness (exhaustive abstract-op sequences x 4 segment sizes + random programs up to 40-60 ops; payload classes nil/empty/short/300B/70000B, headers incl. nil values) comparing offsets, newest/oldest/hw, per-segment layout, epoch cache and read-backs with the model and with an independent reference oracle.",
  design_ref="DESIGN.md section 4 (C01)",
  note=LOG_NOTE + " The byte-level message codec is covered by the harness round trips (and the nil-header-value defect it found), not yet by a Lean codec theorem.",
  technique="Lean 4 proof (invariant + refinement to List Rec) over commit-log model + regenerated guards + differential correspondence",
 ),
 "C09": dict(
  level="Proof: 10 Lean theorems about the retention model for EVERY segment layout and EVERY combination of the three limits: result is a suffix (clean_suffix), newest segment kept (clean_keeps_last), each configured limit holds unless only the newest remains (msgs_/bytes_/age_limit_holds, age_limit_holds_sorted), minimality (clean_minimal), idempotence (clean_idempotent), no limits = no-op; plus old_pipeline_violates_age documenting the defect of the 3-stage pipeline that the proof attempt exposed (counterexample replayed on the real code, repaired by fix commit 344a871). Tie: the six comparison operators and the stage order (age, messages, bytes, age) are regenerated from delete_cleaner.go; differential harness builds 1-12 segment layouts on real logs and runs Clean() under generated limits with a mocked clock.",
  design_ref="DESIGN.md section 4 (C09)",
  note=LOG_NOTE + " Clock is an explicit input (computeTTL mocked). Cleans concurrent with appends are exercised by C08/C03 harnesses, not by these theorems.",
  technique="Lean 4 proof (induction over segment list) + regenerated guards and stage order + differential correspondence",
 ),
 "C16": dict(
  level="Proof: 10 Lean theorems about conditional appends on the commit-log model for EVERY log state satisfying Inv and EVERY arrival order of ANY number of publishers: stored_iff (stored <=> expected = -1 or = assigned offset), stored_at_expected, rejected_incorrect_offset, rejected_unchanged, waived_accepted, publish_inv, at_most_one_winner (any interleaving = any list), stored_are_appended, batch_panics, sequencer_single_message (regenerated facts: batch size forced to 1, AckPolicy NONE refused). Tie: regenerated guards of newMessageSetFromProto + differential harness (all arrival orders of all multisets of <= 4 publishes over 5 expected offsets, exhaustive; random histories up to 40 publishes with reopen and batches) with an independent oracle.",
  design_ref="DESIGN.md section 4 (C16)",
  note=LOG_NOTE + " Concurrency of publishers is reduced to arrival order at the partition leader's single message-processing loop (regenerated fact occBatchOne); the NATS/gRPC path in front of it is exercised by the server-level harness when present.",
  technique="Lean 4 proof over commit-log model (all arrival orders) + regenerated guards + differential correspondence",
 ),
 "C14": dict(
  level="Proof: Lean 4 theorems (check_total, unmarshal_total, replResp_total, classify_total, check_marshal, unmarshal_marshal, check_ok_exact, raw_verbatim, envelope_exact) about a model of checkEnvelope/marshalEnvelope/UnmarshalReplicationResponse/getMessage, for ALL byte strings, types, CRC functions and protobuf codecs. The model is tied to the code on every run: constants and the four comparison operators of the decoder are regenerated from envelope.go, and a differential harness runs ~135k (quick) header-grid and random inputs through the real decoders and the compiled model, plus an implementation-side spec oracle (no panic in any of the 14 Unmarshal* entry points, accepted payload = data[headerLen:], wrong CRC rejected, decode(encode m) = m).",
  design_ref="DESIGN.md section 4 (C14)",
  note="Trusted: Lean kernel; axioms propext/Quot.sound/Classical.choice at most; extractor and harness; protobuf codec and CRC-32C are parameters/hypotheses; Go slicing semantics as modelled.",
  technique="Lean 4 proof over model of envelope codec + regenerated guards + differential correspondence",
 ),
}
NOT_YET = {}
