#!/usr/bin/env python3
"""Regenerates MANIFEST.json from checks_config.py + manifest_text.py (kept in sync by construction)."""
import json, os, sys
sys.path.insert(0, os.path.dirname(os.path.abspath(__file__)))
from checks_config import PROPS
from manifest_text import TEXT, NOT_YET

ALL = ["C%02d" % i for i in range(1, 20)]
HERE = os.path.dirname(os.path.abspath(__file__))


def has_theorems(pid):
    import re
    for m in PROPS[pid]["lean_modules"]:
        p = os.path.join(HERE, "lean", m.replace(".", "/") + ".lean")
        if os.path.exists(p) and re.search(r"^theorem\s", open(p).read(), re.M):
            return True
    return False


checks = []
for pid in ALL:
    if pid not in PROPS or pid not in TEXT or not has_theorems(pid):
        continue
    t = TEXT[pid]
    checks.append({
        "property_id": pid,
        "quick_cmd": "./check %s --tier quick" % pid,
        "thorough_cmd": "./check %s --tier thorough" % pid,
        "evidence_file": "/verif/evidence/%s.json" % pid,
        "replay_cmd_template": "./check %s --replay {path}" % pid,
        "engine": "lean4-proof+correspondence",
        "level_claimed": {"category": PROPS[pid].get("level", "proof"), "text": t["level"], "design_ref": t["design_ref"]},
        "level_note": t["note"],
        "technique": t["technique"],
    })
na = [{"property_id": pid, "reason": NOT_YET.get(pid, "check not built yet in this round; planned (DESIGN.md section 8)")} for pid in ALL if pid not in PROPS or pid not in TEXT or not has_theorems(pid)]
m = {
    "version": 1,
    "setup_cmd": "./setup",
    "hooks": {
        "guard": "verif",
        "enable": "go test -tags verif -overlay /verif/.work/overlay.json (harness files are overlaid into the repo's packages; hooks in /repo are files with //go:build verif)",
        "baseline_off_cmd": "cd /repo && go test -mod=mod -vet=off -count=1 -timeout 25m ./...",
        "source_commits": json.load(open(os.path.join(os.path.dirname(os.path.abspath(__file__)), "hooks.json")))["source_commits"],
        "add_only": True,
    },
    "engines": [{
        "name": "lean4-proof+correspondence", "path": "/verif/check",
        "serves_properties": [c["property_id"] for c in checks],
        "kind_free_text": "Lean 4 theorems about hand-written + regenerated models (lean/Liftbridge), tied to /repo on every run by /verif/extract (go/ast -> Gen/*.lean) and an in-package Go differential harness driving the compiled model (lbmodel) and a spec oracle",
    }],
    "checks": checks,
    "notes": "See DESIGN.md. known_findings.json lists genuine defects (fixed: entries suppress nothing).",
    "not_applicable": na,
}
json.dump(m, open(os.path.join(os.path.dirname(os.path.abspath(__file__)), "MANIFEST.json"), "w"), indent=1)
print("MANIFEST.json:", len(checks), "checks,", len(na), "not claimed")
